/-
  C14: the quantile of each closed-form distance law is the inverse of the cumulative distribution
  of the SAME density. The objects are the generic definitions of Model/KernLaws.lean (the syntax
  the driver executes at `TF.float`) instantiated at `TF.real`. (Mathlib, single modules.)

  Per law (Cauchy, exponential, Weibull, logistic, hyperbolic secant):
    * `..._icdf_cdf` : `icdf (cdf x) = x` on the support,
    * `..._cdf_icdf` : `cdf (icdf p) = p` for `0 < p < 1`,
    * `..._hasDerivAt`: `HasDerivAt cdf (pdf x) x` - `cdf` is an antiderivative of the coded density.
  F21 (open): the power-law `icdf` is not the inverse of the cdf of the coded density, nor of the
  unshifted Pareto density (`powerlaw_counterexample`, `powerlaw_counterexample_pareto`).
-/
import PopsModel.Analysis.DetReal
import PopsModel.Model.Det
import Mathlib.Analysis.SpecialFunctions.Trigonometric.ArctanDeriv
import Mathlib.Analysis.SpecialFunctions.Pow.Deriv
import Mathlib.Analysis.SpecialFunctions.ExpDeriv
import Mathlib.Analysis.SpecialFunctions.Trigonometric.DerivHyp
import Mathlib.Tactic.FieldSimp
import Mathlib.Tactic.Ring
import Mathlib.Tactic.Linarith
import Mathlib.Tactic.NormNum

namespace Pops.Det
open Pops Real

/-! ### Cauchy -/

theorem cauchy_cdf_eq (s : ℝ) : cauchyCdf TF.real s = fun x => 1 / 2 + arctan (x / s) / π := by
  funext x; simp only [cauchyCdf, TF.real, Nat.cast_one, Nat.cast_ofNat]

theorem cauchy_icdf_cdf (s : ℝ) (hs : s ≠ 0) (x : ℝ) :
    cauchyIcdf TF.real s (cauchyCdf TF.real s x) = x := by
  simp only [cauchyIcdf, cauchyCdf, TF.real, Nat.cast_one, Nat.cast_ofNat]
  have hpi : π ≠ 0 := pi_ne_zero
  have : π * (1 / 2 + arctan (x / s) / π - 1 / 2) = arctan (x / s) := by field_simp; ring
  rw [this, tan_arctan]; field_simp

theorem cauchy_cdf_icdf (s : ℝ) (hs : s ≠ 0) (p : ℝ) (h0 : 0 < p) (h1 : p < 1) :
    cauchyCdf TF.real s (cauchyIcdf TF.real s p) = p := by
  simp only [cauchyIcdf, cauchyCdf, TF.real, Nat.cast_one, Nat.cast_ofNat]
  have hpi : 0 < π := pi_pos
  have e : s * tan (π * (p - 1 / 2)) / s = tan (π * (p - 1 / 2)) := by field_simp
  rw [e, arctan_tan (by nlinarith) (by nlinarith)]
  field_simp; ring

theorem cauchy_hasDerivAt (s : ℝ) (hs : s ≠ 0) (x : ℝ) :
    HasDerivAt (cauchyCdf TF.real s) (cauchyPdf TF.real s x) x := by
  rw [cauchy_cdf_eq]
  simp only [cauchyPdf, TF.real, Nat.cast_one, Nat.cast_ofNat, rpow_two]
  have h := (((hasDerivAt_id' x).div_const s).arctan.div_const π).const_add (1 / 2)
  have hpi : π ≠ 0 := pi_ne_zero
  have hpos : 1 + (x / s) ^ 2 ≠ 0 := by positivity
  exact h.congr_deriv (by field_simp)

/-! ### Exponential -/

theorem exponential_cdf_eq (b : ℝ) : exponentialCdf TF.real b = fun x => 1 - exp (-x / b) := by
  funext x; simp only [exponentialCdf, TF.real, Nat.cast_one]

theorem exponential_icdf_cdf (b : ℝ) (hb : b ≠ 0) (x : ℝ) :
    exponentialIcdf TF.real b (exponentialCdf TF.real b x) = x := by
  simp only [exponentialIcdf, exponentialCdf, TF.real, Nat.cast_one]
  have : (1 : ℝ) - (1 - exp (-x / b)) = exp (-x / b) := by ring
  rw [this, log_exp]; field_simp

theorem exponential_cdf_icdf (b : ℝ) (hb : b ≠ 0) (p : ℝ) (h1 : p < 1) :
    exponentialCdf TF.real b (exponentialIcdf TF.real b p) = p := by
  simp only [exponentialIcdf, exponentialCdf, TF.real, Nat.cast_one]
  have e : -(-b * log (1 - p)) / b = log (1 - p) := by field_simp
  rw [e, exp_log (by linarith)]; ring

theorem exponential_hasDerivAt (b : ℝ) (x : ℝ) :
    HasDerivAt (exponentialCdf TF.real b) (exponentialPdf TF.real b x) x := by
  rw [exponential_cdf_eq]
  simp only [exponentialPdf, TF.real, Nat.cast_one]
  have h := ((((hasDerivAt_id' x).neg).div_const b).exp).const_sub 1
  simp only [Pi.neg_apply] at h
  exact h.congr_deriv (by ring)

/-! ### Weibull (`a` = shape, `b` = scale) -/

theorem weibull_cdf_eq (a b : ℝ) : weibullCdf TF.real a b = fun x => 1 - exp (-(x / b) ^ a) := by
  funext x; simp only [weibullCdf, TF.real, Nat.cast_one]

theorem weibull_icdf_cdf (a b : ℝ) (ha : a ≠ 0) (hb : 0 < b) (x : ℝ) (hx : 0 ≤ x) :
    weibullIcdf TF.real a b (weibullCdf TF.real a b x) = x := by
  simp only [weibullIcdf, weibullCdf, TF.real, Nat.cast_one]
  have h0 : 0 ≤ x / b := div_nonneg hx hb.le
  have : (1 : ℝ) - (1 - exp (-(x / b) ^ a)) = exp (-(x / b) ^ a) := by ring
  rw [this, log_exp, neg_neg, ← rpow_mul h0, mul_one_div_cancel ha, rpow_one]
  field_simp

theorem weibull_cdf_icdf (a b : ℝ) (ha : a ≠ 0) (hb : 0 < b) (p : ℝ) (h0 : 0 < p) (h1 : p < 1) :
    weibullCdf TF.real a b (weibullIcdf TF.real a b p) = p := by
  simp only [weibullIcdf, weibullCdf, TF.real, Nat.cast_one]
  have hL : 0 ≤ -log (1 - p) := by
    have : log (1 - p) ≤ 0 := log_nonpos (by linarith) (by linarith)
    linarith
  have e : b * (-log (1 - p)) ^ (1 / a) / b = (-log (1 - p)) ^ (1 / a) := by field_simp
  rw [e, ← rpow_mul hL, one_div_mul_cancel ha, rpow_one, neg_neg, exp_log (by linarith)]
  ring

theorem weibull_hasDerivAt (a b : ℝ) (hb : 0 < b) (x : ℝ) (hx : 0 < x) :
    HasDerivAt (weibullCdf TF.real a b) (weibullPdf TF.real a b x) x := by
  rw [weibull_cdf_eq]
  simp only [weibullPdf, TF.real, Nat.cast_one]
  have hxb : x / b ≠ 0 := (div_pos hx hb).ne'
  have h := (((((hasDerivAt_id' x).div_const b).rpow_const (p := a) (Or.inl hxb)).neg).exp).const_sub 1
  simp only [Pi.neg_apply] at h
  exact h.congr_deriv (by ring)

/-! ### Logistic -/

theorem logistic_cdf_eq (s : ℝ) : logisticCdf TF.real s = fun x => 1 / (1 + exp (-x / s)) := by
  funext x; simp only [logisticCdf, TF.real, Nat.cast_one]

theorem logistic_icdf_cdf (s : ℝ) (hs : s ≠ 0) (x : ℝ) :
    logisticIcdf TF.real s (logisticCdf TF.real s x) = x := by
  simp only [logisticIcdf, logisticCdf, TF.real, Nat.cast_one]
  have hE : 0 < exp (x / s) := exp_pos _
  have : 1 / (1 + exp (-x / s)) / (1 - 1 / (1 + exp (-x / s))) = exp (x / s) := by
    rw [neg_div, exp_neg]
    have hne : 1 + (exp (x / s))⁻¹ ≠ 0 := by positivity
    field_simp
    ring
  rw [this, log_exp]; field_simp

theorem logistic_cdf_icdf (s : ℝ) (hs : s ≠ 0) (p : ℝ) (h0 : 0 < p) (h1 : p < 1) :
    logisticCdf TF.real s (logisticIcdf TF.real s p) = p := by
  simp only [logisticIcdf, logisticCdf, TF.real, Nat.cast_one]
  have hq : 0 < p / (1 - p) := div_pos h0 (by linarith)
  have e : -(s * log (p / (1 - p))) / s = -log (p / (1 - p)) := by field_simp
  rw [e, exp_neg, exp_log hq]
  have : (1 : ℝ) - p ≠ 0 := by linarith
  field_simp; ring

theorem logistic_hasDerivAt (s : ℝ) (hs : s ≠ 0) (x : ℝ) :
    HasDerivAt (logisticCdf TF.real s) (logisticPdf TF.real s x) x := by
  rw [logistic_cdf_eq]
  have he : 0 < exp (-x / s) := exp_pos _
  have hne : 1 + exp (-x / s) ≠ 0 := by positivity
  have h := ((((hasDerivAt_id' x).neg).div_const s).exp).const_add 1
  simp only [Pi.neg_apply] at h
  have h2 := (hasDerivAt_const x (1 : ℝ)).div h hne
  simp only [logisticPdf, TF.real, Nat.cast_one, Nat.cast_ofNat, rpow_two, decide_eq_true_eq]
  split
  · next h1 =>
    have h1' : s = 1 := by exact_mod_cast h1
    subst h1'
    exact h2.congr_deriv (by field_simp; ring)
  · exact h2.congr_deriv (by field_simp; ring)

/-! ### Hyperbolic secant -/

theorem hypsec_cdf_eq (σ : ℝ) :
    hypsecCdf TF.real σ = fun x => 2 / π * arctan (exp (π * x / (2 * σ))) := by
  funext x; simp only [hypsecCdf, TF.real, Nat.cast_ofNat]

theorem hypsec_icdf_cdf (σ : ℝ) (hσ : σ ≠ 0) (x : ℝ) :
    hypsecIcdf TF.real σ (hypsecCdf TF.real σ x) = x := by
  have hpi : π ≠ 0 := pi_ne_zero
  simp only [hypsecIcdf, hypsecCdf, TF.real, Nat.cast_ofNat, decide_eq_true_eq]
  split
  · next h1 =>
    have h1' : σ = 1 := by exact_mod_cast h1
    subst h1'
    have : π / 2 * (2 / π * arctan (exp (π * x / (2 * 1)))) = arctan (exp (π * x / (2 * 1))) := by
      field_simp
    rw [this, tan_arctan, log_exp]; field_simp
  · have : 2 / π * arctan (exp (π * x / (2 * σ))) * π / 2 = arctan (exp (π * x / (2 * σ))) := by
      field_simp
    rw [this, tan_arctan, log_exp]; field_simp

theorem hypsec_cdf_icdf (σ : ℝ) (hσ : σ ≠ 0) (p : ℝ) (h0 : 0 < p) (h1 : p < 1) :
    hypsecCdf TF.real σ (hypsecIcdf TF.real σ p) = p := by
  have hpi : 0 < π := pi_pos
  have hlo : 0 < p * π / 2 := by positivity
  have hhi : p * π / 2 < π / 2 := by nlinarith
  have htan : 0 < tan (p * π / 2) := tan_pos_of_pos_of_lt_pi_div_two hlo hhi
  simp only [hypsecIcdf, hypsecCdf, TF.real, Nat.cast_ofNat, decide_eq_true_eq]
  split
  · next hs1 =>
    have h1' : σ = 1 := by exact_mod_cast hs1
    subst h1'
    have e : π * (2 / π * log (tan (π / 2 * p))) / (2 * 1) = log (tan (p * π / 2)) := by
      have : π / 2 * p = p * π / 2 := by ring
      rw [this]; field_simp
    rw [e, exp_log htan, arctan_tan (by linarith) hhi]
    field_simp
  · have e : π * (log (tan (p * π / 2)) * (2 * σ) / π) / (2 * σ) = log (tan (p * π / 2)) := by
      field_simp
    rw [e, exp_log htan, arctan_tan (by linarith) hhi]
    field_simp

theorem hypsec_hasDerivAt (σ : ℝ) (hσ : σ ≠ 0) (x : ℝ) :
    HasDerivAt (hypsecCdf TF.real σ) (hypsecPdf TF.real σ x) x := by
  rw [hypsec_cdf_eq]
  have hpi : π ≠ 0 := pi_ne_zero
  have h := ((((hasDerivAt_id' x).const_mul π).div_const (2 * σ)).exp.arctan).const_mul (2 / π)
  have he : 0 < exp (π * x / (2 * σ)) := exp_pos _
  have hne : 1 + exp (π * x / (2 * σ)) ^ 2 ≠ 0 := by positivity
  simp only [hypsecPdf, TF.real, Nat.cast_one, Nat.cast_ofNat, decide_eq_true_eq]
  split
  · next h1 =>
    have h1' : σ = 1 := by exact_mod_cast h1
    subst h1'
    refine h.congr_deriv ?_
    simp only [cosh_eq, exp_neg]
    field_simp
    ring
  · refine h.congr_deriv ?_
    simp only [cosh_eq, exp_neg]
    field_simp
    ring

/-! ### F21: the power-law quantile is not the inverse of the cdf of its density -/

/-- `alpha = 2, xmin = 1, p = 1/2`: `icdf = 2`, but the cdf of the coded (shifted) density at 2 is 2/3. -/
theorem powerlaw_counterexample :
    powerlawIcdf TF.real 2 1 (1 / 2) = 2 ∧ powerlawCdf TF.real 2 1 2 = 2 / 3 ∧
      powerlawCdf TF.real 2 1 (powerlawIcdf TF.real 2 1 (1 / 2)) ≠ 1 / 2 := by
  have h1 : powerlawIcdf TF.real 2 1 (1 / 2) = 2 := by
    simp only [powerlawIcdf, TF.real, Nat.cast_one]
    have : (-2 : ℝ) + 1 = -1 := by norm_num
    rw [this, rpow_neg_one]; norm_num
  have h2 : powerlawCdf TF.real 2 1 2 = 2 / 3 := by
    simp only [powerlawCdf, TF.real, Nat.cast_one]
    have : (1 : ℝ) - 2 = -1 := by norm_num
    rw [this, rpow_neg_one]; norm_num
  refine ⟨h1, h2, ?_⟩
  rw [h1, h2]; norm_num

/-- Nor of the unshifted Pareto density on `[xmin, ∞)`: `p = 1/4` gives `icdf = 4`, Pareto cdf 3/4. -/
theorem powerlaw_counterexample_pareto :
    powerlawIcdf TF.real 2 1 (1 / 4) = 4 ∧ paretoCdf TF.real 2 1 (powerlawIcdf TF.real 2 1 (1 / 4)) = 3 / 4 := by
  have h1 : powerlawIcdf TF.real 2 1 (1 / 4) = 4 := by
    simp only [powerlawIcdf, TF.real, Nat.cast_one]
    have : (-2 : ℝ) + 1 = -1 := by norm_num
    rw [this, rpow_neg_one]; norm_num
  refine ⟨h1, ?_⟩
  rw [h1]
  simp only [paretoCdf, TF.real, Nat.cast_one]
  have : (1 : ℝ) - 2 = -1 := by norm_num
  rw [this, rpow_neg_one]; norm_num

/-- The coded power-law density does integrate to `powerlawCdf` (so the counter-example is about the
    quantile, not about the choice of cdf): `HasDerivAt cdf (pdf x) x` for `x + xmin > 0`. -/
theorem powerlaw_hasDerivAt (α xm : ℝ) (hxm : 0 < xm) (x : ℝ) (hx : 0 ≤ x) :
    HasDerivAt (powerlawCdf TF.real α xm) (powerlawPdf TF.real α xm x) x := by
  have hc : powerlawCdf TF.real α xm = fun x => 1 - ((x + xm) / xm) ^ (1 - α) := by
    funext x; simp only [powerlawCdf, TF.real, Nat.cast_one]
  rw [hc]
  simp only [powerlawPdf, TF.real, Nat.cast_one]
  have hb : (x + xm) / xm ≠ 0 := (div_pos (by linarith) hxm).ne'
  have h := (((((hasDerivAt_id' x).add_const xm).div_const xm).rpow_const (p := 1 - α) (Or.inl hb))).const_sub 1
  have e : (1 : ℝ) - α - 1 = -α := by ring
  rw [e] at h
  exact h.congr_deriv (by field_simp; ring)

/-! ### Window: `ceil (max_distance / res)` cells on each side -/

/-- The window of the model at `TF.real`: `2 h + 1` cells per axis with `h = ⌈dmax / res⌉`, which is
    the least number of whole cells reaching `dmax`: `dmax ≤ h * res` and `(h - 1) * res < dmax`.
    For `dmax ≥ 0` the centre `rows / 2` (C++ integer division) is cell `h`. -/
theorem window_real (dmax ns ew : ℝ) (hns : 0 < ns) (hew : 0 < ew) :
    (windowDims TF.real dmax ns ew).1 = 2 * halfWidth TF.real dmax ns + 1 ∧
    (windowDims TF.real dmax ns ew).2 = 2 * halfWidth TF.real dmax ew + 1 ∧
    dmax ≤ (halfWidth TF.real dmax ns : ℝ) * ns ∧ ((halfWidth TF.real dmax ns : ℝ) - 1) * ns < dmax ∧
    dmax ≤ (halfWidth TF.real dmax ew : ℝ) * ew ∧ ((halfWidth TF.real dmax ew : ℝ) - 1) * ew < dmax ∧
    (0 ≤ dmax → Int.tdiv (windowDims TF.real dmax ns ew).1 2 = halfWidth TF.real dmax ns ∧
               Int.tdiv (windowDims TF.real dmax ns ew).2 2 = halfWidth TF.real dmax ew) := by
  have key : ∀ res : ℝ, 0 < res →
      dmax ≤ (⌈dmax / res⌉ : ℝ) * res ∧ ((⌈dmax / res⌉ : ℝ) - 1) * res < dmax := by
    intro res hres
    constructor
    · have := Int.le_ceil (dmax / res)
      calc dmax = dmax / res * res := by field_simp
        _ ≤ ⌈dmax / res⌉ * res := mul_le_mul_of_nonneg_right this hres.le
    · have := Int.ceil_lt_add_one (dmax / res)
      have h2 : ((⌈dmax / res⌉ : ℝ) - 1) < dmax / res := by linarith
      calc ((⌈dmax / res⌉ : ℝ) - 1) * res < dmax / res * res := mul_lt_mul_of_pos_right h2 hres
        _ = dmax := by field_simp
  simp only [windowDims, halfWidth, TF.real]
  refine ⟨by ring, by ring, (key ns hns).1, (key ns hns).2, (key ew hew).1, (key ew hew).2, ?_⟩
  intro h0
  have hn : 0 ≤ ⌈dmax / ns⌉ := Int.ceil_nonneg (div_nonneg h0 hns.le)
  have he : 0 ≤ ⌈dmax / ew⌉ := Int.ceil_nonneg (div_nonneg h0 hew.le)
  constructor
  · rw [Int.tdiv_eq_ediv_of_nonneg (by omega)]; omega
  · rw [Int.tdiv_eq_ediv_of_nonneg (by omega)]; omega

end Pops.Det
