import PopsModel.Model.Basic
import PopsModel.Model.Date
import PopsModel.Model.Schedule
import PopsModel.Model.DatePred
import PopsModel.Props.C07
import PopsModel.Props.C08
import PopsModel.Props.C18
