import PopsModel.Model.Basic
import PopsModel.Model.Date
import PopsModel.Model.Schedule
