// F29 (C06): Config::movement_stochasticity (config.hpp:155; also a constructor parameter of the
// deprecated Simulation, simulation.hpp:81,126,131) is read nowhere. With host movements enabled and
// movement_stochasticity = false the hosts to move are still drawn from the movement stream
// (HostMovement::action -> HostPool::move_hosts_from_to -> draw_n_from_v / draw_n_from_cohorts with
// generator.movement(), actions.hpp:458-459, host_pool.hpp:460-482): the result depends on the
// movement seed although the movement process was "made deterministic" by its flag.
//
// Two runs of Model::run_step (multi-host entry point, one host) over six monthly steps. Named seeds
// (Config::read_seeds with ten values); the runs differ ONLY in the seed named "movement".
// Everything that has a flag is deterministic: generate_stochasticity, establishment_stochasticity,
// movement_stochasticity, dispersal_stochasticity = false, deterministic neighbour kernel, no weather,
// lethal temperature, survival rate, overpopulation, treatments, mortality, soils.
// Each movement row takes 3 hosts from a cell that holds susceptible AND infected hosts.
// Controls: (a) runs differing only in the "weather" seed, (b) use_movements = false, runs differing
// only in the movement seed, (c) movement_stochasticity = true against false with equal seeds (the flag
// changes nothing).
//
//   g++ -std=c++17 -I/repo/include f29_movement_stochasticity_ignored.cpp -o f29 && ./f29
#include <pops/model.hpp>
#include <pops/pest_host_table.hpp>
#include <iostream>
#include <memory>
#include <sstream>
using namespace pops;
using IR = Raster<int>;
using DR = Raster<double>;

static std::string row_of(const IR& x) {
    std::ostringstream o;
    for (int a = 0; a < x.rows(); a++) for (int b = 0; b < x.cols(); b++) o << (a || b ? " " : "") << x(a, b);
    return o.str();
}

static std::string run(bool use_movements, bool movement_stochasticity, const std::vector<unsigned>& seeds, int nsteps) {
    const int rows = 1, cols = 4;
    Config config;
    config.rows = rows; config.cols = cols; config.ew_res = 30; config.ns_res = 30;
    config.model_type = "SI"; config.latency_period_steps = 0;
    config.generate_stochasticity = false;
    config.establishment_stochasticity = false;
    config.movement_stochasticity = movement_stochasticity;  // movement "made deterministic"
    config.dispersal_stochasticity = false;
    config.establishment_probability = 0.9;
    config.reproductive_rate = 0.5;
    config.natural_kernel_type = "deterministic neighbor"; config.natural_direction = "E";
    config.anthro_kernel_type = "deterministic neighbor"; config.anthro_direction = "E";
    config.use_anthropogenic_kernel = false;
    config.natural_scale = 30; config.anthro_scale = 30; config.dispersal_percentage = 0.9;
    config.use_lethal_temperature = false; config.use_survival_rate = false; config.use_overpopulation_movements = false;
    config.use_mortality = false; config.use_treatments = false;
    config.use_spreadrates = false; config.use_quarantine = false;
    config.use_movements = use_movements;
    config.set_date_start(2020, 1, 1); config.set_date_end(2020, 12, 31);
    config.set_step_unit(StepUnit::Month); config.set_step_num_units(1);
    config.set_season_start_end_month(1, 12);
    config.output_frequency = "every_step"; config.output_frequency_n = 1;
    config.create_schedules();
    config.create_pest_host_table_from_parameters(1);
    config.read_seeds(seeds);
    // from cell (0,0) to cell (0,3), three hosts, in steps 0, 1 and 3
    std::vector<std::vector<int>> movements = {{0, 0, 0, 3, 3}, {0, 0, 0, 3, 3}, {0, 0, 0, 3, 3}};
    config.movement_schedule = {0, 1, 3};

    using TModel = Model<IR, DR, int>;
    using Pool = TModel::StandardSingleHostPool;
    using Multi = TModel::StandardMultiHostPool;
    using Pests = TModel::StandardPestPool;
    TModel model(config);

    IR s(rows, cols, 0), i(rows, cols, 0), r(rows, cols, 0), te(rows, cols, 0), th(rows, cols, 0), died(rows, cols, 0);
    std::vector<IR> e, m(1, IR(rows, cols, 0));
    s(0, 0) = 8; i(0, 0) = 6; m[0](0, 0) = 6;
    s(0, 1) = 10; s(0, 2) = 10; s(0, 3) = 10;
    std::vector<std::vector<int>> suitable;
    for (int b = 0; b < cols; b++) { th(0, b) = s(0, b) + i(0, b); suitable.push_back({0, b}); }

    Pool pool(ModelType::SusceptibleInfected, s, e, 0u, i, te, r, m, died, th, model.environment(), config.generate_stochasticity,
              config.reproductive_rate, config.establishment_stochasticity, config.establishment_probability, rows, cols, suitable);
    std::vector<Pool*> ptrs = {&pool};
    Multi multi(ptrs, config);
    PestHostTable<Pool> table(config, model.environment());
    multi.set_pest_host_table(table);
    IR dispersers(rows, cols, 0), established(rows, cols, 0);
    std::vector<std::tuple<int, int>> outside;
    Pests pests{dispersers, established, outside};
    SpreadRateAction<Multi, int> spread_rate(multi, rows, cols, config.ew_res, config.ns_res, 0);
    Treatments<Pool, DR> treatments(config.scheduler());
    IR quarantine_areas(rows, cols, 1);
    QuarantineEscapeAction<IR> quarantine(quarantine_areas, config.ew_res, config.ns_res, 0, "");
    std::vector<DR> temperatures, survival_rates;
    Network<int> network(Network<int>::null_network());

    std::ostringstream o;
    for (int step = 0; step < nsteps; step++) {
        // the total population is the host total itself (hosts that move take their share with them)
        model.run_step(step, multi, pests, th, treatments, temperatures, survival_rates, spread_rate, quarantine, quarantine_areas, movements, network);
        o << "  step " << step << ":  infected [" << row_of(i) << "] susceptible [" << row_of(s) << "] total [" << row_of(th) << "]\n";
    }
    return o.str();
}

int main() {
    //                          gen  nat  ant  est  wea  leth mov  over surv soil
    std::vector<unsigned> a = {11, 12, 13, 14, 15, 16, 17, 18, 19, 20};
    std::vector<unsigned> b = a; b[6] = 1000003;  // only "movement" differs
    std::vector<unsigned> w = a; w[4] = 1000003;  // only "weather" differs (control)
    const int steps = 6;
    std::string ra = run(true, false, a, steps), rb = run(true, false, b, steps), rw = run(true, false, w, steps);
    std::cout << "movements on, movement_stochasticity = false, seeds a (movement = 17):\n" << ra;
    std::cout << "movements on, movement_stochasticity = false, movement seed changed to 1000003:\n" << rb;
    std::cout << "F29 movement_stochasticity = false, only the movement seed differs: outputs " << (ra == rb ? "EQUAL" : "DIFFER") << "\n";
    std::cout << "control, only the weather seed differs:                             outputs " << (ra == rw ? "EQUAL" : "DIFFER") << "\n";
    std::string na = run(false, false, a, steps), nb = run(false, false, b, steps);
    std::cout << "control, use_movements = false, only the movement seed differs:     outputs " << (na == nb ? "EQUAL" : "DIFFER") << "\n";
    std::string ta = run(true, true, a, steps);
    std::cout << "control, movement_stochasticity = true against false, equal seeds:  outputs " << (ta == ra ? "EQUAL" : "DIFFER") << "\n";
    return ra == rb ? 1 : 0;  // exit status 0: the finding reproduces
}
