#include <pops/model.hpp>
#include <iostream>
#include <cmath>
using namespace pops;
using IR = Raster<int>;
struct Rng { uint64_t s; uint64_t next() { s ^= s << 13; s ^= s >> 7; s ^= s << 17; return s; } int in(int lo, int hi) { return lo + (int)(next() % (uint64_t)(hi - lo + 1)); } bool coin(int pct = 50) { return in(0, 99) < pct; } };
struct Probe : DeterministicDispersalKernel<IR> { using DeterministicDispersalKernel<IR>::DeterministicDispersalKernel; int nr() { return number_of_rows; } int nc() { return number_of_columns; } double p(int i, int j) { return probability(i, j); } double md() { return max_distance; } };
int main(int argc, char** argv) {
    uint64_t seed = argc > 1 ? std::stoull(argv[1]) : 1; int n = argc > 2 ? std::stoi(argv[2]) : 300; Rng rng{seed * 0x9E3779B97F4A7C15ULL + 5};
    std::map<std::string, int> fails; std::map<std::string, std::string> first; auto F = [&](const std::string& k, const std::string& w) { if (!fails[k]++) first[k] = w; };
    DispersalKernelType types[] = {DispersalKernelType::Cauchy, DispersalKernelType::Exponential, DispersalKernelType::Weibull, DispersalKernelType::Normal, DispersalKernelType::LogNormal, DispersalKernelType::HyperbolicSecant, DispersalKernelType::Logistic, DispersalKernelType::Gamma, DispersalKernelType::ExponentialPower, DispersalKernelType::PowerLaw};
    const char* names[] = {"cauchy", "exponential", "weibull", "normal", "lognormal", "sech", "logistic", "gamma", "exppower", "powerlaw"};
    for (int c = 0; c < n; c++) {
        int ti = rng.in(0, 9); double scale = rng.in(2, 12) * 0.5, shape = rng.in(2, 8) * 0.5, ew = rng.in(1, 6) * 0.5, ns = rng.in(1, 6) * 0.5, pct = rng.in(50, 95) / 100.0;
        if (ti == 7) { scale = rng.in(1, 4); shape = rng.in(1, 4) * 0.5; }  // gamma: integer alpha for Erlang cdf
        if (ti == 9) { scale = rng.in(3, 8) * 0.5; shape = rng.in(1, 4); }
        IR disp(3, 3, 0); int N = rng.in(1, 400); disp(1, 1) = N; disp(0, 0) = rng.in(1, 50);
        std::string tag = std::string(names[ti]) + " scale " + std::to_string(scale) + " shape " + std::to_string(shape) + " ew " + std::to_string(ew) + " ns " + std::to_string(ns) + " pct " + std::to_string(pct) + " N " + std::to_string(N);
        try {
            Probe k(types[ti], disp, pct, ew, ns, scale, shape);
            if (k.nr() > 400 || k.nc() > 400) continue;
            if (k.nr() != 2 * (int)std::ceil(k.md() / ns) + 1 || k.nc() != 2 * (int)std::ceil(k.md() / ew) + 1) F("window", tag);
            std::default_random_engine g; std::map<std::pair<int, int>, int> cnt; int mr = k.nr() / 2, mc = k.nc() / 2;
            // first a different source cell, then the one we measure (reset)
            for (int q = 0; q < disp(0, 0); q++) k(g, 0, 0);
            for (int q = 0; q < N; q++) { int r, cc; std::tie(r, cc) = k(g, 1, 1); cnt[{r - 1 + mr, cc - 1 + mc}]++; if (r - 1 + mr < 0 || r - 1 + mr >= k.nr() || cc - 1 + mc < 0 || cc - 1 + mc >= k.nc()) F("outside_window", tag); }
            double sum = 0; for (int i = 0; i < k.nr(); i++) for (int j = 0; j < k.nc(); j++) sum += k.p(i, j);
            if (std::abs(sum - 1) > 1e-9) F("not_normalised", tag);
            for (int i = 0; i < k.nr(); i++) for (int j = 0; j < k.nc(); j++) { int kk = cnt.count({i, j}) ? cnt[{i, j}] : 0; if (std::abs(kk - N * k.p(i, j)) > 1 + 1e-6) F("quota", tag + " cell " + std::to_string(i) + "," + std::to_string(j) + " k " + std::to_string(kk) + " Np " + std::to_string(N * k.p(i, j)));
                int mi = k.nr() - 1 - i, mj = k.nc() - 1 - j; int k2 = cnt.count({mi, mj}) ? cnt[{mi, mj}] : 0; int k3 = cnt.count({i, mj}) ? cnt[{i, mj}] : 0; if (std::abs(kk - k2) > 1 || std::abs(kk - k3) > 1) F("mirror", tag); }
            // proportional to pdf at correct distance: compare ratio of a row-neighbour and col-neighbour via distances
            if (k.nr() >= 3 && k.nc() >= 3) { double pr = k.p(mr - 1, mc), pc = k.p(mr, mc - 1); if (ns > ew && pr > pc + 1e-15 && ti != 4 && ti != 2 && ti != 7 && ti != 9) F("anisotropy_direction", tag); }
        } catch (const std::invalid_argument& e) { F(std::string("throw_") + names[ti], tag + ": " + e.what()); }
    }
    std::cout << "det cases " << n << "\n"; for (auto& kv : fails) std::cout << "  FAIL " << kv.first << " x" << kv.second << " first: " << first[kv.first] << "\n"; return 0;
}
