import Mathlib.Algebra.BigOperators.Group.Finset.Basic
import Mathlib.Algebra.Order.BigOperators.Group.Finset
import Mathlib.Algebra.BigOperators.Ring.Finset
import Mathlib.Algebra.Order.Field.Rat
import Mathlib.Algebra.Order.Field.Basic
import Mathlib.Tactic.Linarith
import Mathlib.Tactic.Ring
import Mathlib.Tactic.FieldSimp
import Mathlib.Tactic.Positivity

open Finset

variable {n : ℕ}

structure St (n : ℕ) where
  r : Fin n → ℚ
  k : Fin n → ℕ

def pickAt (c0 : Fin n) (δ : ℚ) (s : St n) : St n :=
  { r := Function.update s.r c0 (s.r c0 - δ), k := Function.update s.k c0 (s.k c0 + 1) }

def run (sel : (Fin n → ℚ) → Fin n) (δ : ℚ) (p : Fin n → ℚ) : ℕ → St n
  | 0 => { r := p, k := fun _ => 0 }
  | t + 1 => pickAt (sel (run sel δ p t).r) δ (run sel δ p t)

structure PInv (p : Fin n → ℚ) (δ : ℚ) (t : ℕ) (s : St n) : Prop where
  rel : ∀ c, s.r c = p c - s.k c * δ
  cnt : ∑ c, s.k c = t
  low : ∀ c, -δ < s.r c
  near : ∀ c d, 1 ≤ s.k d → s.r c - δ ≤ s.r d

theorem sum_r {p : Fin n → ℚ} {δ : ℚ} {t : ℕ} {s : St n} (h : PInv p δ t s) (hp : ∑ c, p c = 1) :
    ∑ c, s.r c = 1 - t * δ := by
  have h1 : ∑ c, s.r c = ∑ c, p c - (∑ c, (s.k c : ℚ)) * δ := by
    rw [Finset.sum_mul, ← Finset.sum_sub_distrib]
    exact Finset.sum_congr rfl (fun c _ => h.rel c)
  have h2 : (∑ c, (s.k c : ℚ)) = (t : ℚ) := by
    rw [← h.cnt]; push_cast; rfl
  rw [h1, hp, h2]

theorem inv_pickAt (p : Fin n → ℚ) (hp : ∑ c, p c = 1) (N : ℕ) (hN : 1 ≤ N)
    (t : ℕ) (ht : t < N) (s : St n) (h : PInv p (1 / N) t s)
    (c0 : Fin n) (hmax : ∀ c, s.r c ≤ s.r c0) :
    PInv p (1 / N) (t + 1) (pickAt c0 (1 / N) s) := by
  have hNpos : (0 : ℚ) < N := by exact_mod_cast hN
  have hδpos : (0 : ℚ) < 1 / N := by positivity
  have hpos : 0 < s.r c0 := by
    by_contra hneg
    push Not at hneg
    have hall : ∀ c, s.r c ≤ 0 := fun c => le_trans (hmax c) hneg
    have hs := sum_r h hp
    have hle : ∑ c, s.r c ≤ 0 := Finset.sum_nonpos (fun c _ => hall c)
    have : (t : ℚ) * (1 / N) < 1 := by
      rw [mul_one_div, div_lt_one hNpos]; exact_mod_cast ht
    linarith
  refine ⟨?_, ?_, ?_, ?_⟩
  · intro c
    by_cases hc : c = c0
    · subst hc; simp only [pickAt, Function.update_self, h.rel c]; push_cast; ring
    · simp only [pickAt, Function.update_of_ne hc, h.rel c]
  · simp only [pickAt]
    rw [Finset.sum_update_of_mem (Finset.mem_univ _)]
    have h2 : ∑ c, s.k c = s.k c0 + ∑ c ∈ univ \ {c0}, s.k c := by
      rw [← Finset.add_sum_erase univ s.k (Finset.mem_univ c0)]
      congr 1
      apply Finset.sum_congr _ (fun _ _ => rfl)
      ext x; simp
    have := h.cnt
    omega
  · intro c
    by_cases hc : c = c0
    · subst hc; simp only [pickAt, Function.update_self]; linarith
    · simp only [pickAt, Function.update_of_ne hc]; exact h.low c
  · intro c d hd
    by_cases hdc : d = c0
    · subst hdc
      simp only [pickAt, Function.update_self]
      by_cases hc : c = d
      · subst hc; simp only [Function.update_self]; linarith
      · rw [Function.update_of_ne hc]; have := hmax c; linarith
    · simp only [pickAt, Function.update_of_ne hdc] at hd ⊢
      by_cases hc : c = c0
      · subst hc; simp only [Function.update_self]; have := h.near c d hd; linarith
      · rw [Function.update_of_ne hc]; exact h.near c d hd

theorem inv_run (sel : (Fin n → ℚ) → Fin n) (hsel : ∀ (r : Fin n → ℚ) (c : Fin n), r c ≤ r (sel r))
    (p : Fin n → ℚ) (hp0 : ∀ c, 0 ≤ p c) (hp : ∑ c, p c = 1) (N : ℕ) (hN : 1 ≤ N) :
    ∀ t, t ≤ N → PInv p (1 / N) t (run sel (1 / N) p t)
  | 0, _ => by
      have hNpos : (0 : ℚ) < N := by exact_mod_cast hN
      have hδpos : (0 : ℚ) < 1 / N := by positivity
      refine ⟨by intro c; simp [run], by simp [run], ?_, ?_⟩
      · intro c; simp only [run]; have := hp0 c; linarith
      · intro c d hd; simp [run] at hd
  | t + 1, ht => by
      simp only [run]
      exact inv_pickAt p hp N hN t (by omega) _ (inv_run sel hsel p hp0 hp N hN t (by omega)) _
        (hsel _)

/-- every cell's allotment is within one disperser of its proportional share -/
theorem quota (sel : (Fin n → ℚ) → Fin n) (hsel : ∀ (r : Fin n → ℚ) (c : Fin n), r c ≤ r (sel r))
    (p : Fin n → ℚ) (hp0 : ∀ c, 0 ≤ p c) (hp : ∑ c, p c = 1) (N : ℕ) (hN : 1 ≤ N) (c : Fin n) :
    |(((run sel (1 / N) p N).k c : ℚ)) - N * p c| ≤ 1 := by
  have h := inv_run sel hsel p hp0 hp N hN N le_rfl
  generalize run sel (1 / (N:ℚ)) p N = s at h
  have hNpos : (0 : ℚ) < N := by exact_mod_cast hN
  have hδpos : (0 : ℚ) < 1 / N := by positivity
  have hsum := sum_r h hp
  have hzero : ∑ c, s.r c = 0 := by rw [hsum]; field_simp; ring
  have hup : s.r c ≤ 1 / N := by
    by_contra hgt
    push Not at hgt
    have hall : ∀ d, 0 ≤ s.r d := by
      intro d
      by_cases hk : 1 ≤ s.k d
      · have := h.near c d hk; linarith
      · have hk0 : s.k d = 0 := by omega
        have := h.rel d; rw [hk0] at this; simp at this; rw [this]; exact hp0 d
    have hcpos : 0 < s.r c := by linarith
    have : 0 < ∑ d, s.r d :=
      Finset.sum_pos' (fun d _ => hall d) ⟨c, Finset.mem_univ c, hcpos⟩
    linarith
  have hlow := h.low c
  have hrel := h.rel c
  have e1 : (1 / (N : ℚ)) * N = 1 := by field_simp
  rw [abs_le]
  constructor
  · have h3 : s.r c * N ≤ 1 := by
      calc s.r c * N ≤ (1 / N) * N := mul_le_mul_of_nonneg_right hup hNpos.le
        _ = 1 := e1
    rw [hrel] at h3
    have : (p c - s.k c * (1 / N)) * N = p c * N - s.k c := by field_simp
    linarith
  · have h3 : -1 < s.r c * N := by
      calc (-1 : ℚ) = -(1 / N) * N := by rw [neg_mul, e1]
        _ < s.r c * N := mul_lt_mul_of_pos_right hlow hNpos
    rw [hrel] at h3
    have : (p c - s.k c * (1 / N)) * N = p c * N - s.k c := by field_simp
    linarith

#print axioms quota
