// Scratch preview of h_date: property predicates of C07/C08 checked with an independent day-number oracle.
#include <pops/scheduling.hpp>
#include <iostream>
#include <cstdint>
using namespace pops;
struct Rng { uint64_t s; uint64_t next() { s ^= s << 13; s ^= s >> 7; s ^= s << 17; return s; } int in(int lo, int hi) { return lo + (int)(next() % (uint64_t)(hi - lo + 1)); } bool coin(int pct = 50) { return in(0, 99) < pct; } };
static bool leap(int y) { return y % 4 == 0 && (y % 100 != 0 || y % 400 == 0); }
static int dimo(int y, int m) { static int d[] = {0, 31, 28, 31, 30, 31, 30, 31, 31, 30, 31, 30, 31}; return m == 2 && leap(y) ? 29 : d[m]; }
// days from civil (Howard Hinnant)
static long dn(int y, int m, int d) { y -= m <= 2; long era = (y >= 0 ? y : y - 399) / 400; unsigned yoe = (unsigned)(y - era * 400); unsigned doy = (153 * (m + (m > 2 ? -3 : 9)) + 2) / 5 + d - 1; unsigned doe = yoe * 365 + yoe / 4 - yoe / 100 + doy; return era * 146097 + (long)doe - 719468; }
static long dn(const Date& d) { return dn(d.year(), d.month(), d.day()); }
static bool valid(const Date& d) { return d.month() >= 1 && d.month() <= 12 && d.day() >= 1 && d.day() <= dimo(d.year(), d.month()); }
static void civil(long z, int& y, int& m, int& d) { z += 719468; long era = (z >= 0 ? z : z - 146096) / 146097; unsigned doe = (unsigned)(z - era * 146097); unsigned yoe = (doe - doe / 1460 + doe / 36524 - doe / 146096) / 365; y = (int)yoe + (int)era * 400; unsigned doy = doe - (365 * yoe + yoe / 4 - yoe / 100); unsigned mp = (5 * doy + 2) / 153; d = doy - (153 * mp + 2) / 5 + 1; m = mp < 10 ? mp + 3 : mp - 9; y += m <= 2; }
int main(int argc, char** argv) {
    uint64_t seed = argc > 1 ? std::stoull(argv[1]) : 1; int n = argc > 2 ? std::stoi(argv[2]) : 20000;
    Rng rng{seed * 0x9E3779B97F4A7C15ULL + 99};
    std::map<std::string, int> fails; std::map<std::string, std::string> first;
    auto F = [&](const std::string& k, const std::string& w) { if (!fails[k]++) first[k] = w; };
    for (int c = 0; c < n; c++) {
        int unit = rng.in(0, 2); int num = unit == 0 ? rng.in(1, 28) : unit == 1 ? rng.in(1, 6) : rng.in(1, 11);
        int ys[] = {1900, 1999, 2000, 2019, 2020, 2023, 2024, 2100}; int y = ys[rng.in(0, 7)];
        int m = rng.coin(40) ? rng.in(11, 12) : rng.in(1, 12); int d = unit == 2 ? 1 : rng.in(1, dimo(y, m));
        Date st(y, m, d); long span = rng.in(30, 900); int ey, em, ed; civil(dn(st) + span, ey, em, ed); Date en(ey, em, ed);
        StepUnit su = unit == 0 ? StepUnit::Day : unit == 1 ? StepUnit::Week : StepUnit::Month;
        std::string tag = (unit == 0 ? "day" : unit == 1 ? "week" : "month") + std::string(" n=") + std::to_string(num) + " start " + st.to_string() + " end " + en.to_string();
        try {
            Scheduler s(st, en, su, num);
            unsigned k = s.get_num_steps();
            if (!(s.get_step(0).start_date() == st)) F("first", tag);
            for (unsigned i = 0; i < k; i++) {
                Date a = s.get_step(i).start_date(), b = s.get_step(i).end_date();
                if (!valid(a) || !valid(b)) F("valid", tag);
                if (dn(a) > dn(b)) F("order", tag);
                if (a > en) F("start_after_end", tag);
                if (i + 1 < k && dn(s.get_step(i + 1).start_date()) != dn(b) + 1) F("contiguous", tag);
                long len = dn(b) - dn(a) + 1;
                if (unit == 0 || (unit == 1 && num == 1)) {
                    int nd = unit == 0 ? num : 7;
                    if (a.year() != b.year()) F("day_step_crosses_year", tag + " step " + a.to_string());
                    bool last_of_year = (i + 1 < k) ? s.get_step(i + 1).start_date().year() != a.year() : false;
                    if (i + 1 < k) {
                        if (!last_of_year && len != nd) F("day_step_length", tag + " step " + a.to_string() + " len " + std::to_string(len));
                        if (last_of_year) { Date nx = s.get_step(i + 1).start_date(); if (!(nx.month() == 1 && nx.day() == 1)) F("year_not_starting_jan1", tag);
                            // merged rule: length in [nd, 2nd-1 (+1 leap)]
                            int extra = leap(a.year()) ? 1 : 0; if (len < 1 || len > 2 * nd + extra)  /* n+1..2n(+1 leap) for non-initial steps; an initial step may start anywhere */ F("last_step_length", tag + " step " + a.to_string() + " len " + std::to_string(len)); }
                    }
                }
            }
            // successor of last start is after end: the last step's end+1 > en
            { Date lastend = s.get_step(k - 1).end_date(); if (dn(lastend) + 1 <= dn(en)) F("stopped_early", tag); }
            // lookup
            for (int t = 0; t < 10; t++) { long z = dn(st) + rng.in(-5, (int)span + 40); int yy, mm, dd; civil(z, yy, mm, dd); Date q(yy, mm, dd); int expect = -1; for (unsigned i = 0; i < k; i++) if (z >= dn(s.get_step(i).start_date()) && z <= dn(s.get_step(i).end_date())) expect = i;
                try { unsigned got = s.schedule_action_date(q); if ((int)got != expect) F("lookup", tag + " date " + q.to_string()); } catch (const std::invalid_argument&) { if (expect != -1) F("lookup_throw", tag + " date " + q.to_string()); } }
            // schedules, only steps shorter than a year
            bool shortsteps = true; for (unsigned i = 0; i < k; i++) if (dn(s.get_step(i).end_date()) - dn(s.get_step(i).start_date()) + 1 >= 365) shortsteps = false;
            if (shortsteps) {
                int am = rng.in(1, 12), ad = rng.in(1, 28);
                auto yv = s.schedule_action_yearly(am, ad); auto ev = s.schedule_action_end_of_year(); auto mv = s.schedule_action_monthly(); int sm = rng.in(1, 12), sem = rng.in(sm, 12); auto sv = s.schedule_spread(Season(sm, sem));
                for (unsigned i = 0; i < k; i++) {
                    Date a = s.get_step(i).start_date(), b = s.get_step(i).end_date(); bool hasy = false, hase = false, hasm = false;
                    for (long z = dn(a); z <= dn(b); z++) { int yy, mm, dd; civil(z, yy, mm, dd); if (mm == am && dd == ad) hasy = true; if (mm == 12 && dd == 31) hase = true; if (dd == dimo(yy, mm)) hasm = true; }
                    if (yv[i] != hasy) F("yearly", tag + " step " + a.to_string() + " action " + std::to_string(am) + "/" + std::to_string(ad));
                    if (ev[i] != hase) F("end_of_year", tag + " step " + a.to_string());
                    if (mv[i] != hasm) F("monthly", tag + " step " + a.to_string());
                    bool sp = (a.month() >= sm && a.month() <= sem) || (b.month() >= sm && b.month() <= sem); if (sv[i] != sp) F("spread", tag);
                }
                unsigned cnt = 0; for (unsigned i = 0; i < k; i++) { if (simulation_step_to_action_step(yv, i) != cnt) F("action_index", tag); if (yv[i]) cnt++; } if (get_number_of_scheduled_actions(yv) != cnt) F("count", tag);
            }
        } catch (const std::invalid_argument& e) { /* constructor rejection */ }
    }
    std::cout << "schedulers " << n << "\n"; for (auto& kv : fails) std::cout << "  FAIL " << kv.first << " x" << kv.second << " first: " << first[kv.first] << "\n";
    return fails.empty() ? 0 : 1;
}
