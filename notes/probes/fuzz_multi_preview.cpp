#include <pops/model.hpp>
#include <iostream>
using namespace pops;
using IR = Raster<int>; using FR = Raster<double>;
using TModel = Model<IR, FR, int>; using HP = TModel::StandardSingleHostPool; using MHP = TModel::StandardMultiHostPool;
using Prov = RandomNumberGeneratorProvider<std::default_random_engine>;
struct Rng { uint64_t s; uint64_t next() { s ^= s << 13; s ^= s >> 7; s ^= s << 17; return s; } int in(int lo, int hi) { return lo + (int)(next() % (uint64_t)(hi - lo + 1)); } bool coin(int pct = 50) { return in(0, 99) < pct; } };
struct HostData { IR s, i, r, te, th, died; std::vector<IR> e, m; HostData(int R, int C, int L, int M, bool sei) : s(R, C, 0), i(R, C, 0), r(R, C, 0), te(R, C, 0), th(R, C, 0), died(R, C, 0), e(sei ? L + 1 : 0, IR(R, C, 0)), m(M, IR(R, C, 0)) {} };
int main(int argc, char** argv) {
    uint64_t seed = argc > 1 ? std::stoull(argv[1]) : 1; int n = argc > 2 ? std::stoi(argv[2]) : 2000; Rng rng{seed * 0x9E3779B97F4A7C15ULL + 13};
    std::map<std::string, int> fails; std::map<std::string, std::string> first; auto F = [&](const std::string& k, const std::string& w) { if (!fails[k]++) first[k] = w; };
    for (int c = 0; c < n; c++) {
        int R = 1, C = 2, H = rng.in(1, 3), M = rng.in(1, 3); bool sei = rng.coin(); int L = sei ? rng.in(0, 2) : 0;
        Environment<IR, FR, int, Prov> env; FR weather(R, C, 1); weather(0, 0) = rng.in(0, 8) / 8.0; weather(0, 1) = rng.in(1, 8) / 8.0; env.update_weather_coefficient(weather);
        std::vector<std::unique_ptr<HostData>> data; std::vector<std::unique_ptr<HP>> pools; std::vector<HP*> ptrs; std::vector<std::vector<int>> sc = {{0, 0}, {0, 1}};
        Config config; config.establishment_stochasticity = rng.coin(); config.establishment_probability = rng.in(0, 8) / 8.0; config.set_arrival_behavior(rng.coin() ? "land" : "infect");
        IR tp(R, C, 0);
        for (int h = 0; h < H; h++) { data.emplace_back(new HostData(R, C, L, M, sei)); auto& d = *data.back(); for (int j = 0; j < C; j++) { d.s(0, j) = rng.coin(70) ? rng.in(0, 6) : 0; for (auto& x : d.m) { int v = rng.coin() ? rng.in(0, 3) : 0; x(0, j) = v; d.i(0, j) += v; } d.th(0, j) = d.s(0, j) + d.i(0, j); tp(0, j) += d.th(0, j); }
            pools.emplace_back(new HP(sei ? ModelType::SusceptibleExposedInfected : ModelType::SusceptibleInfected, d.s, d.e, L, d.i, d.te, d.r, d.m, d.died, d.th, env, false, 1.0, config.establishment_stochasticity, config.establishment_probability, R, C, sc)); ptrs.push_back(pools.back().get()); }
        for (int j = 0; j < C; j++) tp(0, j) += rng.in(0, 3) + 1; env.set_total_population(&tp);
        MHP mhp(ptrs, config); PestHostTable<HP> pht(env); for (int h = 0; h < H; h++) pht.add_host_info(rng.in(0, 8) / 8.0, 0, 0); mhp.set_pest_host_table(pht);
        std::default_random_engine g(rng.in(0, 1 << 30)); std::string tag = "H=" + std::to_string(H) + " " + config.arrival_behavior();
        for (int op = 0; op < 6; op++) { int j = rng.in(0, 1); std::vector<int> s0, i0, e0; for (auto& d : data) { s0.push_back(d->s(0, j)); i0.push_back(d->i(0, j)); e0.push_back(d->te(0, j)); }
            int kind = rng.in(0, 2);
            if (kind == 0) { int ret; try { ret = mhp.disperser_to(0, j, g); } catch (const std::invalid_argument&) { continue; } int changed = 0; for (int h = 0; h < H; h++) { int ds = s0[h] - data[h]->s(0, j); if (ds != 0) { changed++; if (ds != 1) F("landing_not_one", tag); if (s0[h] <= 0) F("landing_no_susceptible", tag); int gain = sei ? data[h]->te(0, j) - e0[h] : data[h]->i(0, j) - i0[h]; if (gain != 1) F("landing_no_gain", tag); } } if (changed > 1) F("landing_two_hosts", tag); if (changed != ret) F("landing_return", tag); }
            else if (kind == 1) { int req = rng.in(0, 12); int tot = 0; for (int v : i0) tot += v; int ret = mhp.pests_from(0, j, req, g); if (ret > req || ret != std::min(req, tot)) F("pests_from_count", tag + " req " + std::to_string(req) + " tot " + std::to_string(tot) + " ret " + std::to_string(ret)); int moved = 0; for (int h = 0; h < H; h++) { int di = i0[h] - data[h]->i(0, j); if (di < 0 || di > i0[h]) F("pests_from_host_overdraw", tag); if (data[h]->s(0, j) - s0[h] != di) F("pests_from_not_to_S", tag); moved += di; } if (moved != ret) F("pests_from_sum", tag); }
            else { int req = rng.in(0, 12); int tot = 0; for (int v : s0) tot += v; int ret = mhp.pests_to(0, j, req, g); if (ret != std::min(req, tot)) F("pests_to_count", tag); int moved = 0; for (int h = 0; h < H; h++) { int ds = s0[h] - data[h]->s(0, j); if (ds < 0 || ds > s0[h]) F("pests_to_overdraw", tag); if (data[h]->i(0, j) - i0[h] != ds) F("pests_to_not_to_I", tag); moved += ds; } if (moved != ret) F("pests_to_sum", tag); }
            int inf = 0, th = 0; for (auto& d : data) { inf += d->i(0, j); th += d->s(0, j) + d->i(0, j); } if (mhp.infected_at(0, j) != inf || mhp.total_hosts_at(0, j) != th) F("sums", tag);
        }
    }
    std::cout << "multi cases " << n << "\n"; for (auto& kv : fails) std::cout << "  FAIL " << kv.first << " x" << kv.second << " first: " << first[kv.first] << "\n"; return 0;
}
