#include <cmath>
#include <pops/quarantine.hpp>
#include <pops/raster.hpp>
#include <iostream>
using namespace pops;
struct H { const Raster<int>* inf; const std::vector<std::vector<int>>* cells;
  int infected_at(int r, int c) const { return (*inf)(r, c); }
  const std::vector<std::vector<int>>& suitable_cells() const { return *cells; } };
int main() {
    Raster<int> areas(52, 1, 1), infected(52, 1, 0);
    infected(26, 0) = 1;   // 26 cells from the north edge row 0, 25 from the south edge row 51
    std::vector<std::vector<int>> cells; for (int r = 0; r < 52; r++) cells.push_back({r, 0});
    H h{&infected, &cells};
    QuarantineEscapeAction<Raster<int>> q(areas, 1.0, 0.4, 1, "N,S");
    q.action(h, areas, 0);
    std::cout << "ns_res=0.4: distance " << q.distance(0) << " direction " << (int)q.direction(0)
              << "  (north edge 26 x 0.4 = 10.4, south edge 25 x 0.4 = 10.0: nearest is S = " << (int)Direction::S << ")\n";
    QuarantineEscapeAction<Raster<int>> q2(areas, 1.0, 0.4, 1, "S,N");
    q2.action(h, areas, 0);
    std::cout << "same with directions given as S,N: direction " << (int)q2.direction(0) << "\n";
}
