// F31 probe (C19): assignment INTO a raster that wraps caller-owned memory.
// Property sentence: "a raster wrapping caller-owned memory writes through to it and never frees it",
// quantified over "every sequence of copy, move and assignment".
//
//   g++ -std=c++17 -g -fsanitize=address -I/repo/include f31_assignment_into_wrapper.cpp -o f31
//   ASAN_OPTIONS=detect_leaks=1 ./f31 [scenario]      (no argument: all scenarios in one process)
//
// Each scenario prints the caller's array before / after and whether the wrapper still points at it;
// LeakSanitizer reports at exit the buffers that nobody freed.
#include <pops/raster.hpp>
#include <cstdio>
#include <cstring>
#include <string>
#include <utility>
using pops::Raster;

static void show(const char* what, const int* b, int n)
{
    std::printf("  %-34s b = {", what);
    for (int k = 0; k < n; k++) std::printf("%s%d", k ? ", " : "", b[k]);
    std::printf("}\n");
}
static void where(const Raster<int>& w, const int* b)
{
    std::printf("  w: %dx%d, w.data() %s b, w(0,0) = %d\n", w.rows(), w.cols(), w.data() == b ? "==" : "!=", w(0, 0));
}

// 1. copy assignment, same shape
static void copy_same()
{
    std::printf("[copy_same] int b[6]; Raster<int> w(b,2,3), x(2,3,7); w = x; w(0,0) = 9;\n");
    int b[6] = {1, 2, 3, 4, 5, 6};
    Raster<int> w(b, 2, 3), x(2, 3, 7);
    show("before", b, 6);
    w = x;
    show("after w = x", b, 6);
    w(0, 0) = 9;
    show("after w(0,0) = 9", b, 6);
    where(w, b);
}
// 2. move assignment from a named owner
static void move_named()
{
    std::printf("[move_named] Raster<int> w(b,2,3), x(2,3,7); w = std::move(x); w(0,0) = 9;\n");
    int b[6] = {1, 2, 3, 4, 5, 6};
    Raster<int> w(b, 2, 3), x(2, 3, 7);
    w = std::move(x);
    show("after w = std::move(x)", b, 6);
    w(0, 0) = 9;
    show("after w(0,0) = 9", b, 6);
    where(w, b);
    std::printf("  x.data() %s nullptr\n", x.data() ? "!=" : "==");
}
// 3. move assignment from a temporary
static void move_temp()
{
    std::printf("[move_temp] Raster<int> w(b,2,3); w = Raster<int>(2,3,5); w(0,0) = 9;\n");
    int b[6] = {1, 2, 3, 4, 5, 6};
    Raster<int> w(b, 2, 3);
    w = Raster<int>(2, 3, 5);
    show("after w = Raster<int>(2,3,5)", b, 6);
    w(0, 0) = 9;
    show("after w(0,0) = 9", b, 6);
    where(w, b);
}
// 4. copy assignment of another shape (smaller and larger than the wrapped array)
static void copy_other_shape()
{
    std::printf("[copy_other_shape] Raster<int> w(b,2,3), y(1,2,8), z(3,4,4); w = y; w(0,1) = 9; w = z; w(2,3) = 9;\n");
    int b[6] = {1, 2, 3, 4, 5, 6};
    Raster<int> w(b, 2, 3), y(1, 2, 8), z(3, 4, 4);
    w = y;
    show("after w = y (1x2)", b, 6);
    w(0, 1) = 9;
    show("after w(0,1) = 9", b, 6);
    where(w, b);
    w = z;                                   // the buffer of the first assignment is dropped here: owns_ is still false
    show("after w = z (3x4)", b, 6);
    w(2, 3) = 9;
    show("after w(2,3) = 9", b, 6);
    where(w, b);
}
// 5. self assignment (copy and move): must stay a wrapper
static void self_assign()
{
    std::printf("[self_assign] Raster<int> w(b,2,3); w = w; w = std::move(w); w(0,0) = 9;\n");
    int b[6] = {1, 2, 3, 4, 5, 6};
    Raster<int> w(b, 2, 3);
    Raster<int>& alias = w;
    w = alias;
    w = std::move(alias);
    w(0, 0) = 9;
    show("after w(0,0) = 9", b, 6);
    where(w, b);
}
// 6. control: no assignment - the wrapper writes through and nothing is leaked
static void control()
{
    std::printf("[control] Raster<int> w(b,2,3); w(0,0) = 9; w += 1;\n");
    int b[6] = {1, 2, 3, 4, 5, 6};
    Raster<int> w(b, 2, 3);
    w(0, 0) = 9;
    w += 1;
    show("after w(0,0) = 9; w += 1", b, 6);
    where(w, b);
}
// 7. move assignment from ANOTHER wrapper: w re-points to the other caller array (not a leak, not a free)
static void move_wrapper()
{
    std::printf("[move_wrapper] Raster<int> w(b,2,3), v(c,2,3); w = std::move(v); w(0,0) = 9;\n");
    int b[6] = {1, 2, 3, 4, 5, 6}, c[6] = {0, 0, 0, 0, 0, 0};
    Raster<int> w(b, 2, 3), v(c, 2, 3);
    w = std::move(v);
    w(0, 0) = 9;
    show("after w(0,0) = 9", b, 6);
    show("                  (c)", c, 6);
    std::printf("  w.data() %s c\n", w.data() == c ? "==" : "!=");
}

int main(int argc, char** argv)
{
    std::string which = argc > 1 ? argv[1] : "all";
    struct { const char* name; void (*f)(); } S[] = {
        {"copy_same", copy_same}, {"move_named", move_named}, {"move_temp", move_temp},
        {"copy_other_shape", copy_other_shape}, {"self_assign", self_assign}, {"control", control},
        {"move_wrapper", move_wrapper}};
    for (auto& s : S)
        if (which == "all" || which == s.name) s.f();
    return 0;
}
