#include <pops/model.hpp>
#include <pops/statistics.hpp>
#include <iostream>
#include <cmath>
using namespace pops;
using IR = Raster<int>; using FR = Raster<double>;
struct Rng { uint64_t s; uint64_t next() { s ^= s << 13; s ^= s >> 7; s ^= s << 17; return s; } int in(int lo, int hi) { return lo + (int)(next() % (uint64_t)(hi - lo + 1)); } bool coin(int pct = 50) { return in(0, 99) < pct; } };
struct FakeHosts { const IR& inf; std::vector<std::vector<int>> cells; const std::vector<std::vector<int>>& suitable_cells() const { return cells; } int infected_at(int i, int j) const { return inf(i, j); } };
static bool same(double a, double b) { return (std::isnan(a) && std::isnan(b)) || a == b; }
int main(int argc, char** argv) {
    uint64_t seed = argc > 1 ? std::stoull(argv[1]) : 1; int n = argc > 2 ? std::stoi(argv[2]) : 5000; Rng rng{seed * 0x9E3779B97F4A7C15ULL + 7};
    std::map<std::string, int> fails; std::map<std::string, std::string> first; auto F = [&](const std::string& k, const std::string& w) { if (!fails[k]++) first[k] = w; };
    for (int c = 0; c < n; c++) {
        int R = rng.in(1, 7), C = rng.in(1, 7); int ew = rng.in(1, 4), ns = rng.in(1, 4);
        IR inf(R, C, 0); std::vector<std::vector<int>> cells; for (int i = 0; i < R; i++) for (int j = 0; j < C; j++) cells.push_back({i, j});
        auto randomize = [&](int dens) { for (int i = 0; i < R; i++) for (int j = 0; j < C; j++) inf(i, j) = rng.coin(dens) ? rng.in(1, 5) : 0; };
        randomize(rng.in(0, 40)); FakeHosts h{inf, cells};
        std::string tag = std::to_string(R) + "x" + std::to_string(C);
        // spread rate sequence
        int steps = 4; SpreadRateAction<FakeHosts, int> sr(h, R, C, ew, ns, steps);
        auto bbox = [&](int& nn, int& ss, int& ee, int& ww) { bool f = false; nn = R; ss = -1; ee = -1; ww = C; for (int i = 0; i < R; i++) for (int j = 0; j < C; j++) if (inf(i, j) > 0) { f = true; nn = std::min(nn, i); ss = std::max(ss, i); ee = std::max(ee, j); ww = std::min(ww, j); } return f; };
        int pn, ps, pe, pw; bool pf = bbox(pn, ps, pe, pw);
        for (int s = 0; s < steps; s++) {
            for (int i = 0; i < R; i++) for (int j = 0; j < C; j++) if (rng.coin(15)) inf(i, j) = rng.in(1, 3); else if (rng.coin(5)) inf(i, j) = 0;
            sr.action(h, s); int nn, ss, ee, ww; bool f = bbox(nn, ss, ee, ww); double rn, rs, re, rw; std::tie(rn, rs, re, rw) = sr.step_rate(s);
            if (!f) { if (!(std::isnan(rn) && std::isnan(rs) && std::isnan(re) && std::isnan(rw))) F("rate_no_infection", tag); }
            else if (pf) { double en = (pn - nn) * ns, es = (ss - ps) * ns, ee_ = (ee - pe) * ew, ew_ = (pw - ww) * ew;
                if (en == 0 && nn == 0) en = NAN; if (es == 0 && ss == R - 1) es = NAN; if (ee_ == 0 && ee == C - 1) ee_ = NAN; if (ew_ == 0 && ww == 0) ew_ = NAN;
                if (!same(rn, en) || !same(rs, es) || !same(re, ee_) || !same(rw, ew_)) F("rate", tag + " got " + std::to_string(rn) + "," + std::to_string(rs) + "," + std::to_string(re) + "," + std::to_string(rw) + " want " + std::to_string(en) + "," + std::to_string(es) + "," + std::to_string(ee_) + "," + std::to_string(ew_)); }
            pf = f; pn = nn; ps = ss; pe = ee; pw = ww;
        }
        // quarantine
        IR areas(R, C, 0); int nareas = rng.in(0, 3); for (int i = 0; i < R; i++) for (int j = 0; j < C; j++) areas(i, j) = rng.coin(70) ? rng.in(0, nareas) : 0;
        std::string dirs[] = {"", "N", "S", "E", "W", "N,E", "S,W", "N,S,E,W", "E,W"}; std::string dsel = dirs[rng.in(0, 8)];
        QuarantineEscapeAction<IR> q(areas, ew, ns, 1, dsel); q.action(h, areas, 0);
        bool en_ = dsel.empty() || dsel.find('N') != std::string::npos, es_ = dsel.empty() || dsel.find('S') != std::string::npos, ee2 = dsel.empty() || dsel.find('E') != std::string::npos, ew2 = dsel.empty() || dsel.find('W') != std::string::npos;
        bool esc = false; for (int i = 0; i < R; i++) for (int j = 0; j < C; j++) if (inf(i, j) > 0 && areas(i, j) == 0) esc = true;
        if (q.escaped(0) != esc) F("escape", tag);
        if (!esc) { double best = std::numeric_limits<double>::max(); bool any = false; for (int i = 0; i < R; i++) for (int j = 0; j < C; j++) if (inf(i, j) > 0) { any = true; int a = areas(i, j); int bn = R, bs = -1, be = -1, bw = C; for (int x = 0; x < R; x++) for (int y = 0; y < C; y++) if (areas(x, y) == a) { bn = std::min(bn, x); bs = std::max(bs, x); be = std::max(be, y); bw = std::min(bw, y); }
                    if (en_) best = std::min(best, (double)(i - bn) * ns); if (es_) best = std::min(best, (double)(bs - i) * ns); if (ee2) best = std::min(best, (double)(be - j) * ew); if (ew2) best = std::min(best, (double)(j - bw) * ew); }
            if (any && q.distance(0) != best) F("distance", tag + " dirs '" + dsel + "' got " + std::to_string(q.distance(0)) + " want " + std::to_string(best)); }
        // statistics
        unsigned sum = 0, cnt = 0; for (int i = 0; i < R; i++) for (int j = 0; j < C; j++) { sum += inf(i, j); if (inf(i, j) > 0) cnt++; }
        if (sum_of_infected(inf, cells) != sum) F("sum", tag); if (area_of_infected(inf, ew, ns, cells) != (double)cnt * ew * ns) F("area", tag);
    }
    std::cout << "metrics cases " << n << "\n"; for (auto& kv : fails) std::cout << "  FAIL " << kv.first << " x" << kv.second << " first: " << first[kv.first] << "\n"; return fails.empty() ? 0 : 1;
}
