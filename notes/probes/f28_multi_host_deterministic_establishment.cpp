// F28 (C06): two hosts, establishment_stochasticity = false - the result still depends on the
// seed of the establishment stream, because MultiHostPool::disperser_to draws the receiving host
// with pick_host_by_weight(..., generator) from that stream (multi_host_pool.hpp:369, 446-459).
//
// Two runs of Model::run_step (multi-host entry point) over six monthly steps. Named seeds
// (Config::read_seeds with ten values); the runs differ ONLY in the seed named "establishment".
// Everything that has a flag is deterministic: generate_stochasticity = false,
// establishment_stochasticity = false, dispersal by the deterministic neighbour kernel (direction E),
// no weather, lethal temperature, survival rate, overpopulation, movements, treatments, mortality, soils.
// Controls: (a) the same pair of runs differing only in the "weather" seed (a stream nobody uses),
// (b) the same landscape with ONE host, runs differing in the establishment seed.
//
//   g++ -std=c++17 -I/repo/include f28_multi_host_deterministic_establishment.cpp -o f28 && ./f28
#include <pops/model.hpp>
#include <pops/pest_host_table.hpp>
#include <iostream>
#include <memory>
#include <sstream>
using namespace pops;
using IR = Raster<int>;
using DR = Raster<double>;

struct Host {
    IR s, i, r, te, th, died;
    std::vector<IR> e, m;
    std::vector<std::vector<int>> suitable;
    Host(int rows, int cols) : s(rows, cols, 0), i(rows, cols, 0), r(rows, cols, 0), te(rows, cols, 0), th(rows, cols, 0), died(rows, cols, 0), m(1, IR(rows, cols, 0)) {}
};

static std::string row_of(const IR& x) {
    std::ostringstream o;
    for (int a = 0; a < x.rows(); a++) for (int b = 0; b < x.cols(); b++) o << (a || b ? " " : "") << x(a, b);
    return o.str();
}

// Runs the model and returns a printable record of every host raster after every step.
static std::string run(int nhosts, const std::vector<unsigned>& seeds, int nsteps) {
    const int rows = 1, cols = 5;
    Config config;
    config.rows = rows; config.cols = cols; config.ew_res = 30; config.ns_res = 30;
    config.model_type = "SI"; config.latency_period_steps = 0;
    config.generate_stochasticity = false;
    config.establishment_stochasticity = false;   // establishment "made deterministic"
    config.establishment_probability = 0.9;        // tester = 1 - 0.9 < total suitability: every landing on a host with susceptibles establishes
    config.reproductive_rate = 1.0;
    config.natural_kernel_type = "deterministic neighbor"; config.natural_direction = "E";
    config.anthro_kernel_type = "deterministic neighbor"; config.anthro_direction = "E";
    config.use_anthropogenic_kernel = false;
    config.dispersal_stochasticity = false;
    config.natural_scale = 30; config.anthro_scale = 30; config.dispersal_percentage = 0.9;
    config.use_lethal_temperature = false; config.use_survival_rate = false; config.use_overpopulation_movements = false;
    config.use_mortality = false; config.use_treatments = false; config.use_movements = false;
    config.use_spreadrates = false; config.use_quarantine = false;
    config.set_date_start(2020, 1, 1); config.set_date_end(2020, 12, 31);
    config.set_step_unit(StepUnit::Month); config.set_step_num_units(1);
    config.set_season_start_end_month(1, 12);
    config.output_frequency = "every_step"; config.output_frequency_n = 1;
    config.create_schedules();
    config.create_pest_host_table_from_parameters(nhosts);
    config.read_seeds(seeds);  // ten named seeds, multi-stream provider

    using TModel = Model<IR, DR, int>;
    using Pool = TModel::StandardSingleHostPool;
    using Multi = TModel::StandardMultiHostPool;
    using Pests = TModel::StandardPestPool;
    TModel model(config);

    std::vector<Host> hs;
    IR total(rows, cols, 0);
    for (int k = 0; k < nhosts; k++) {
        hs.emplace_back(rows, cols);
        Host& h = hs.back();
        for (int b = 0; b < cols; b++) { h.s(0, b) = 10; }
        if (k == 0) { h.i(0, 0) = 4; h.m[0](0, 0) = 4; }
        for (int b = 0; b < cols; b++) { h.th(0, b) = h.s(0, b) + h.i(0, b); total(0, b) += h.th(0, b); }
    }
    for (auto& h : hs) for (int b = 0; b < cols; b++) h.suitable.push_back({0, b});
    IR npop(total);  // hosts only: total suitability = susceptible / total <= 1

    std::vector<std::unique_ptr<Pool>> pools;
    std::vector<Pool*> ptrs;
    for (auto& h : hs) {
        pools.emplace_back(new Pool(ModelType::SusceptibleInfected, h.s, h.e, 0u, h.i, h.te, h.r, h.m, h.died, h.th, model.environment(),
                                    config.generate_stochasticity, config.reproductive_rate, config.establishment_stochasticity,
                                    config.establishment_probability, rows, cols, h.suitable));
        ptrs.push_back(pools.back().get());
    }
    Multi multi(ptrs, config);
    PestHostTable<Pool> table(config, model.environment());
    multi.set_pest_host_table(table);
    IR dispersers(rows, cols, 0), established(rows, cols, 0);
    std::vector<std::tuple<int, int>> outside;
    Pests pests{dispersers, established, outside};
    SpreadRateAction<Multi, int> spread_rate(multi, rows, cols, config.ew_res, config.ns_res, 0);
    Treatments<Pool, DR> treatments(config.scheduler());
    IR quarantine_areas(rows, cols, 1);
    QuarantineEscapeAction<IR> quarantine(quarantine_areas, config.ew_res, config.ns_res, 0, "");
    std::vector<DR> temperatures, survival_rates;
    std::vector<std::vector<int>> movements;
    Network<int> network(Network<int>::null_network());

    std::ostringstream o;
    for (int step = 0; step < nsteps; step++) {
        model.run_step(step, multi, pests, npop, treatments, temperatures, survival_rates, spread_rate, quarantine, quarantine_areas, movements, network);
        o << "  step " << step << ":";
        for (int k = 0; k < nhosts; k++) o << "  host" << k << " infected [" << row_of(hs[k].i) << "] susceptible [" << row_of(hs[k].s) << "]";
        o << "\n";
    }
    return o.str();
}

int main() {
    //                          gen  nat  ant  est  wea  leth mov  over surv soil
    std::vector<unsigned> a = {11, 12, 13, 14, 15, 16, 17, 18, 19, 20};
    std::vector<unsigned> b = a; b[3] = 1000003;  // only "establishment" differs
    std::vector<unsigned> w = a; w[4] = 1000003;  // only "weather" differs (control)
    const int steps = 6;
    std::string ra = run(2, a, steps), rb = run(2, b, steps), rw = run(2, w, steps);
    std::cout << "two hosts, establishment_stochasticity = false, seeds a (establishment = 14):\n" << ra;
    std::cout << "two hosts, establishment_stochasticity = false, establishment seed changed to 1000003:\n" << rb;
    std::cout << "F28 two hosts, only the establishment seed differs: outputs " << (ra == rb ? "EQUAL" : "DIFFER") << "\n";
    std::cout << "control, two hosts, only the weather seed differs:       outputs " << (ra == rw ? "EQUAL" : "DIFFER") << "\n";
    std::string sa = run(1, a, steps), sb = run(1, b, steps);
    std::cout << "control, one host, only the establishment seed differs:  outputs " << (sa == sb ? "EQUAL" : "DIFFER") << "\n";
    return ra == rb ? 1 : 0;  // exit status 0: the finding reproduces
}
