#include <pops/model.hpp>
#include <iostream>
#include <sstream>
#include <set>
#include <cmath>
using namespace pops;
struct Rng { uint64_t s; uint64_t next() { s ^= s << 13; s ^= s >> 7; s ^= s << 17; return s; } int in(int lo, int hi) { return lo + (int)(next() % (uint64_t)(hi - lo + 1)); } bool coin(int pct = 50) { return in(0, 99) < pct; } };
using Cell = std::pair<int, int>;
struct Edge { int a, b; std::vector<Cell> cells; double cost; };
struct Spec {
    std::vector<Edge> edges; std::map<int, Cell> nodecell; std::map<int, std::vector<int>> adj;
    std::vector<Cell> seg(int a, int b, double& cost) const { for (auto& e : edges) if (e.a == a && e.b == b) { cost = e.cost; return e.cells; } for (auto& e : edges) if (e.a == b && e.b == a) { cost = e.cost; auto c = e.cells; std::reverse(c.begin(), c.end()); return c; } return {}; }
    void walk(int node, std::set<int> visited, double dist, bool jump, Cell start, std::set<Cell>& out, int depth) const {
        if (depth > 60) return; auto it = adj.find(node); std::vector<int> all = it == adj.end() ? std::vector<int>{} : it->second; std::vector<int> cand;
        if (all.empty()) { out.insert(start); return; } if (all.size() == 1) cand = all; else { for (int x : all) if (!visited.count(x)) cand.push_back(x); if (cand.empty()) cand = all; }
        visited.insert(node);
        for (int nx : std::set<int>(cand.begin(), cand.end())) { if (nx == node) { out.insert(start); continue; } double cost; auto s = seg(node, nx, cost); if (dist > cost) { walk(nx, visited, dist - cost, jump, start, out, depth + 1); continue; }
            if (jump) { out.insert(dist < cost / 2 ? s.front() : s.back()); continue; } double cpc = cost / (s.size() - 1); long idx = std::lround(dist / cpc); if (idx < 0 || idx >= (long)s.size()) { out.insert({-999, -999}); continue; } out.insert(s[idx]); }
    }
};
int main(int argc, char** argv) {
    uint64_t seed = argc > 1 ? std::stoull(argv[1]) : 1; int n = argc > 2 ? std::stoi(argv[2]) : 300; Rng rng{seed * 0x9E3779B97F4A7C15ULL + 11};
    std::map<std::string, int> fails; std::map<std::string, std::string> first; auto F = [&](const std::string& k, const std::string& w) { if (!fails[k]++) first[k] = w; };
    long trips = 0;
    for (int c = 0; c < n; c++) {
        int R = rng.in(3, 8), C = rng.in(3, 8); double res = 10; BBox<double> bbox; bbox.north = R * res; bbox.south = 0; bbox.west = 0; bbox.east = C * res;
        int nn = rng.in(2, 6); std::vector<Cell> ncell; for (int k = 0; k < nn; k++) ncell.push_back({rng.in(0, R - 1), rng.in(0, C - 1)});
        bool has_cost = rng.coin(40); Spec spec; std::ostringstream txt; if (has_cost) txt << "node_1,node_2,cost,geometry\n";
        int ne = rng.in(1, 8); std::set<std::pair<int, int>> used;
        for (int k = 0; k < ne; k++) { int a = rng.in(1, nn), b = rng.in(1, nn); if (a == b) continue; if (used.count({a, b}) || used.count({b, a})) continue; used.insert({a, b});
            Cell ca = ncell[a - 1], cb = ncell[b - 1]; if (ca == cb) continue; std::vector<Cell> cells; Cell cur = ca; cells.push_back(cur); bool rowfirst = rng.coin();
            while (cur != cb) { if ((rowfirst && cur.first != cb.first) || cur.second == cb.second) cur.first += cur.first < cb.first ? 1 : -1; else cur.second += cur.second < cb.second ? 1 : -1; cells.push_back(cur); }
            double cost = has_cost ? rng.in(1, 40) * 2.5 : (cells.size() - 1) * res; txt << a << "," << b << ","; if (has_cost) txt << cost << ",";
            for (size_t q = 0; q < cells.size(); q++) { txt << (cells[q].second + 0.5) * res << ";" << bbox.north - (cells[q].first + 0.5) * res << (q + 1 < cells.size() ? ";" : ""); } txt << "\n";
            spec.edges.push_back({a, b, cells, cost}); spec.adj[a].push_back(b); spec.adj[b].push_back(a); spec.nodecell[a] = ca; spec.nodecell[b] = cb; }
        if (spec.edges.empty()) continue;
        // the library builds adjacency iterating segments sorted by (a,b): order of adj lists may differ; sets are used in spec so fine
        Network<int> net(bbox, res, res); std::istringstream in(txt.str()); net.load(in);
        std::set<Cell> allcells; for (auto& e : spec.edges) for (auto& x : e.cells) allcells.insert(x);
        for (int t = 0; t < 30; t++) { auto it = spec.nodecell.begin(); std::advance(it, rng.in(0, (int)spec.nodecell.size() - 1)); Cell start = it->second; double dist = rng.in(0, 400) * 0.5; bool jump = rng.coin();
            std::set<Cell> out; for (auto& kv : spec.nodecell) if (kv.second == start) spec.walk(kv.first, {}, dist, jump, start, out, 0);
            for (int sd = 0; sd < 5; sd++) { std::default_random_engine g(rng.in(0, 1 << 30)); int r, cc; trips++;
                NetworkDispersalKernel<int> kern(net, dist, dist, jump); std::tie(r, cc) = kern(g, start.first, start.second);
                std::string tag = "net:\n" + txt.str() + " start " + std::to_string(start.first) + "," + std::to_string(start.second) + " dist " + std::to_string(dist) + " jump " + std::to_string(jump) + " got " + std::to_string(r) + "," + std::to_string(cc);
                if (!allcells.count({r, cc})) F("off_network", tag); if (!out.count({r, cc})) F("not_in_outcomes", tag);
                if (jump) { bool isnode = false; for (auto& kv : spec.nodecell) if (kv.second == Cell{r, cc}) isnode = true; if (!isnode) F("jump_not_node", tag); }
                std::tie(r, cc) = net.teleport(start.first, start.second, g); bool adjok = false; for (auto& kv : spec.nodecell) if (kv.second == start) for (int nb : spec.adj[kv.first]) if (spec.nodecell[nb] == Cell{r, cc}) adjok = true; if (!adjok) F("teleport_not_adjacent", tag); }
        }
    }
    std::cout << "net cases " << n << " trips " << trips << "\n"; for (auto& kv : fails) std::cout << "  FAIL " << kv.first << " x" << kv.second << " first: " << first[kv.first].substr(0, 600) << "\n"; return 0;
}
