// F33 (C14): deterministic kernel whose density evaluates to 0 (in double precision) at EVERY cell of its window:
// a law whose density vanishes at distance 0 (Weibull shape > 1, also gamma alpha > 1, log-normal, ...) with a scale
// so small against the cell size that the density at the nearest neighbours underflows to 0. The constructor
// divides the window by its sum: 0/0, every weight is NaN; operator() then compares NaNs, finds no maximum and
// leaves every disperser in the source cell - the one cell whose density is exactly 0 (proportional share 0).
//   Weibull scale 0.75, shape 5.125, dispersal_percentage 255/256, cells 3.5 x 3.5:
//   icdf = 1.05 -> 3x3 window; pdf(0) = 0, pdf(3.5) = pdf(4.95) = 0 (exp(-2690) underflows).
// Control: scale 3 (density at the neighbours representable): weights are proportions, dispersers spread out.
//   g++ -std=c++17 -I/repo/include f33_all_window_weights_zero.cpp -o f33 && ./f33   (exit 0 = reproduced)
#include <pops/deterministic_kernel.hpp>
#include <pops/raster.hpp>
#include <cmath>
#include <iostream>
#include <map>
#include <random>
using namespace pops;
struct Probe : DeterministicDispersalKernel<Raster<int>> {
    using DeterministicDispersalKernel<Raster<int>>::DeterministicDispersalKernel;
    const Raster<double>& window() const { return probability; }
};
static int run(double scale, double shape, bool expect_nan) {
    Raster<int> disp(5, 5, 0); disp(2, 2) = 12;
    Probe k(DispersalKernelType::Weibull, disp, 255.0 / 256, 3.5, 3.5, scale, shape);
    int nans = 0; double sum = 0;
    for (int i = 0; i < k.window().rows(); i++) for (int j = 0; j < k.window().cols(); j++) { double v = k.window()(i, j); if (std::isnan(v)) nans++; else sum += v; }
    std::cout << "scale " << scale << " shape " << shape << ": window " << k.window().rows() << "x" << k.window().cols() << ", NaN weights " << nans << ", sum of the others " << sum << "\n";
    std::default_random_engine g; std::map<std::pair<int, int>, int> got;
    for (int q = 0; q < 12; q++) { int r, c; std::tie(r, c) = k(g, 2, 2); got[{r, c}]++; }
    for (auto& p : got) std::cout << "   cell (" << p.first.first << "," << p.first.second << ") receives " << p.second << "\n";
    bool all_nan = nans == k.window().rows() * k.window().cols();
    return expect_nan ? (all_nan && got.size() == 1) : (nans == 0 && std::fabs(sum - 1) < 1e-9 && got.size() > 1);
}
int main() {
    bool a = run(0.75, 5.125, true);
    bool b = run(3.0, 5.125, false);
    std::cout << (a && b ? "REPRODUCED: all weights NaN, all dispersers stay in the source cell (share 0); control fine" : "not reproduced") << "\n";
    return a && b ? 0 : 1;
}
