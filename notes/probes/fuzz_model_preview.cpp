// Scratch preview of the h_model harness: random Model runs, invariants checked after each action via the hook.
#include <pops/model.hpp>
#include <iostream>
#include <sstream>
#include <cstdint>
using namespace pops;
using IR = Raster<int>; using FR = Raster<double>;
using TModel = Model<IR, FR, int>;
using HP = TModel::StandardSingleHostPool; using MHP = TModel::StandardMultiHostPool; using PP = TModel::StandardPestPool;

struct Rng { uint64_t s; uint64_t next() { s ^= s << 13; s ^= s >> 7; s ^= s << 17; return s; } int in(int lo, int hi) { return lo + (int)(next() % (uint64_t)(hi - lo + 1)); } bool coin(int pct = 50) { return in(0, 99) < pct; } };

struct Land {
    int rows, cols, L, M; bool sei;
    IR s, i, r, te, th, died, tp; std::vector<IR> e, m;
    long total() const { long t = 0; for (int a = 0; a < rows; a++) for (int b = 0; b < cols; b++) { t += s(a, b) + i(a, b) + r(a, b); for (auto& x : e) t += x(a, b); } return t; }
    long died_total() const { long t = 0; for (int a = 0; a < rows; a++) for (int b = 0; b < cols; b++) t += died(a, b); return t; }
};

static std::string g_fail;
static void fail(const std::string& m) { if (g_fail.empty()) g_fail = m; }

int main(int argc, char** argv) {
    uint64_t seed = argc > 1 ? std::stoull(argv[1]) : 1; int ncases = argc > 2 ? std::stoi(argv[2]) : 200;
    Rng rng{seed * 0x9E3779B97F4A7C15ULL + 12345};
    int nfail = 0; long nactions = 0; std::map<std::string, long> action_counts;
    for (int cs = 0; cs < ncases; cs++) {
        g_fail.clear();
        Land L; L.rows = rng.in(1, 5); L.cols = rng.in(1, 5); L.sei = rng.coin(); L.L = L.sei ? rng.in(0, 3) : 0; L.M = rng.in(1, 4);
        int R = L.rows, C = L.cols;
        L.s = IR(R, C, 0); L.i = IR(R, C, 0); L.r = IR(R, C, 0); L.te = IR(R, C, 0); L.th = IR(R, C, 0); L.died = IR(R, C, 0); L.tp = IR(R, C, 0);
        if (L.sei) L.e.assign(L.L + 1, IR(R, C, 0));
        L.m.assign(L.M, IR(R, C, 0));
        for (int a = 0; a < R; a++) for (int b = 0; b < C; b++) {
            if (rng.coin(25)) continue;  // empty cell
            L.s(a, b) = rng.in(0, 20);
            if (rng.coin(60)) for (auto& x : L.m) { int v = rng.coin(50) ? rng.in(0, 4) : 0; x(a, b) = v; L.i(a, b) += v; }
            if (L.sei && rng.coin(40)) for (auto& x : L.e) { int v = rng.coin(50) ? rng.in(0, 3) : 0; x(a, b) = v; L.te(a, b) += v; }
            if (rng.coin(15)) L.r(a, b) = rng.in(0, 3);
            L.th(a, b) = L.s(a, b) + L.i(a, b) + L.r(a, b) + L.te(a, b);
            L.tp(a, b) = L.th(a, b) + (rng.coin(30) ? rng.in(0, 5) : 0);
        }
        for (int a = 0; a < R; a++) for (int b = 0; b < C; b++) if (L.tp(a, b) == 0) L.tp(a, b) = rng.in(1, 3);
        Config config;
        config.random_seed = rng.in(0, 1000000); config.rows = R; config.cols = C; config.ew_res = 1; config.ns_res = 1;
        config.model_type = L.sei ? "SEI" : "SI"; config.latency_period_steps = L.L;
        config.generate_stochasticity = rng.coin(); config.establishment_stochasticity = rng.coin(); config.dispersal_stochasticity = rng.coin(70);
        config.establishment_probability = rng.in(0, 8) / 8.0; config.reproductive_rate = rng.in(0, 12) / 4.0;
        const char* kernels[] = {"cauchy", "exponential", "deterministic neighbor", "uniform"};
        config.natural_kernel_type = kernels[rng.in(0, 3)]; config.natural_scale = rng.in(1, 3); config.anthro_scale = 1; config.anthro_kernel_type = "cauchy";
        const char* dirs[] = {"N", "E", "S", "W", "NE", "SW"};
        config.natural_direction = config.natural_kernel_type == std::string("deterministic neighbor") ? dirs[rng.in(0, 5)] : "none";
        config.natural_kappa = 0; config.use_anthropogenic_kernel = false; config.dispersal_percentage = 0.9;
        config.use_lethal_temperature = rng.coin(40); config.lethal_temperature = -5; config.lethal_temperature_month = rng.in(1, 12);
        config.use_survival_rate = rng.coin(40); config.survival_rate_month = rng.in(1, 12); config.survival_rate_day = rng.in(1, 28);
        config.use_mortality = rng.coin(50); config.mortality_frequency = rng.coin() ? "year" : "every_n_steps"; config.mortality_frequency_n = rng.in(1, 5);
        config.use_treatments = rng.coin(50);
        config.use_quarantine = rng.coin(30); config.quarantine_frequency = "month"; config.quarantine_frequency_n = 1;
        config.use_spreadrates = rng.coin(30); config.spreadrate_frequency = "month"; config.spreadrate_frequency_n = 1;
        config.use_overpopulation_movements = rng.coin(35); config.overpopulation_percentage = rng.in(0, 8) / 8.0; config.leaving_percentage = rng.in(0, 8) / 8.0; config.leaving_scale_coefficient = 1;
        config.use_movements = rng.coin(40);
        if (config.use_overpopulation_movements) config.use_mortality = false;  // documented: overpopulation does not maintain cohorts
        config.output_frequency = "year"; config.output_frequency_n = 1;
        bool soils = rng.coin(30); config.dispersers_to_soils_percentage = rng.in(0, 8) / 8.0;
        int y0 = 2019 + rng.in(0, 1);
        config.set_date_start(y0, rng.in(1, 12), 1); config.set_date_end(y0 + 2, 12, 31);
        if (rng.coin(70)) { config.set_step_unit(StepUnit::Month); config.set_step_num_units(rng.in(1, 2)); } else { config.set_step_unit(StepUnit::Week); config.set_step_num_units(rng.in(1, 3)); }
        int ss = rng.in(1, 12), se = rng.in(ss, 12); config.set_season_start_end_month(ss, se);
        config.create_schedules();
        unsigned nsteps = config.scheduler().get_num_steps();
        // movements on spread steps
        std::vector<std::vector<int>> movements;
        if (config.use_movements) {
            std::vector<unsigned> spread_steps; for (unsigned k = 0; k < nsteps; k++) if (config.spread_schedule()[k]) spread_steps.push_back(k);
            if (!spread_steps.empty()) { int nm = rng.in(0, 5); std::vector<unsigned> sch; for (int k = 0; k < nm; k++) sch.push_back(spread_steps[rng.in(0, (int)spread_steps.size() - 1)]); std::sort(sch.begin(), sch.end());
                for (int k = 0; k < nm; k++) { movements.push_back({rng.in(0, R - 1), rng.in(0, C - 1), rng.in(0, R - 1), rng.in(0, C - 1), rng.in(0, 15)}); } config.movement_schedule = sch; }
        }
        std::vector<FR> temperatures, survival_rates;
        if (config.use_lethal_temperature) for (unsigned k = 0; k < config.num_lethal(); k++) { FR t(R, C, 0); for (int a = 0; a < R; a++) for (int b = 0; b < C; b++) t(a, b) = rng.in(-10, 0); temperatures.push_back(t); }
        if (config.use_survival_rate) for (unsigned k = 0; k < config.num_survival_rate(); k++) { FR t(R, C, 0); for (int a = 0; a < R; a++) for (int b = 0; b < C; b++) t(a, b) = rng.in(0, 8) / 8.0; survival_rates.push_back(t); }
        FR weather(R, C, 1); for (int a = 0; a < R; a++) for (int b = 0; b < C; b++) weather(a, b) = rng.in(0, 8) / 8.0;
        IR dispersers(R, C, 0), established(R, C, 0), qareas(R, C, 0); for (int a = 0; a < R; a++) for (int b = 0; b < C; b++) qareas(a, b) = rng.in(0, 2);
        std::vector<std::tuple<int, int>> outside;
        auto suitable = find_suitable_cells<int>(L.th);
        if (suitable.empty()) continue;
        TModel model(config);
        model.environment().update_weather_coefficient(weather);
        HP hp(model_type_from_string(config.model_type), L.s, L.e, config.latency_period_steps, L.i, L.te, L.r, L.m, L.died, L.th, model.environment(),
              config.generate_stochasticity, config.reproductive_rate, config.establishment_stochasticity, config.establishment_probability, R, C, suitable);
        std::vector<HP*> hps = {&hp}; MHP mhp(hps, config);
        PestHostTable<HP> pht(model.environment()); double mrate = rng.in(0, 8) / 8.0; int lag = rng.in(0, L.M - 1); pht.add_host_info(rng.in(4, 8) / 8.0, mrate, lag); mhp.set_pest_host_table(pht);
        PP pp{dispersers, established, outside};
        SpreadRateAction<MHP, int> spread_rate(mhp, R, C, 1, 1, config.use_spreadrates ? config.rate_num_steps() : 0);
        QuarantineEscapeAction<IR> quarantine(qareas, 1, 1, config.use_quarantine ? config.quarantine_num_steps() : 0);
        Treatments<HP, FR> treatments(config.scheduler());
        bool ratio_treatment = false;
        if (config.use_treatments) { int nt = rng.in(0, 3); for (int k = 0; k < nt; k++) { FR map(R, C, 0); for (int a = 0; a < R; a++) for (int b = 0; b < C; b++) map(a, b) = rng.in(0, 4) / 4.0;
                unsigned stp = rng.in(0, (int)nsteps - 1); Date d = config.scheduler().get_step(stp).start_date(); bool pesticide = rng.coin(40); bool allinf = rng.coin(40); if (!allinf) ratio_treatment = true;
                try { treatments.add_treatment(map, d, pesticide ? rng.in(20, 90) : 0, allinf ? TreatmentApplication::AllInfectedInCell : TreatmentApplication::Ratio); } catch (const std::invalid_argument&) {} } }
        std::vector<IR> soil_rasters(rng.in(1, 3), IR(R, C, 0));
        if (soils) model.activate_soils(soil_rasters);
        // invariants via hook
        long prev_total = L.total(), prev_died = L.died_total(); bool overpop_seen = false; bool mort_ok = true; std::string last = "init";
        auto check = [&](const char* action, int step) {
            nactions++; action_counts[action]++;
            std::string where = std::string(action) + "@" + std::to_string(step);
            if (std::string(action) == "overpopulation") overpop_seen = true;
            long tot = L.total(), dd = L.died_total();
            for (int a = 0; a < R; a++) for (int b = 0; b < C; b++) {
                int esum = 0; for (auto& x : L.e) { if (x(a, b) < 0) fail("negative exposed cohort after " + where); esum += x(a, b); }
                int msum = 0; for (auto& x : L.m) { if (x(a, b) < 0) fail("negative mortality cohort after " + where); msum += x(a, b); }
                if (L.s(a, b) < 0 || L.i(a, b) < 0 || L.r(a, b) < 0 || L.te(a, b) < 0 || L.th(a, b) < 0 || L.died(a, b) < 0) fail("negative count after " + where);
                if (dispersers(a, b) < 0 || established(a, b) < 0) fail("negative pests after " + where);
                for (auto& x : soil_rasters) if (x(a, b) < 0) fail("negative soil after " + where);
                if (L.te(a, b) != esum) fail("total_exposed != sum cohorts after " + where);
                if (L.th(a, b) != L.s(a, b) + esum + L.i(a, b) + L.r(a, b)) fail("total_hosts != sum parts after " + where + " cell " + std::to_string(a) + "," + std::to_string(b));
                if (!overpop_seen && !ratio_treatment && L.i(a, b) != msum) fail("infected != sum mortality after " + where);
                if (established(a, b) > dispersers(a, b) && std::string(action) == "spread") fail("established > dispersers after " + where);
            }
            std::string act(action);
            if (act == "mortality") { if (tot != prev_total - (dd - prev_died)) fail("mortality ledger broken at " + where); }
            else if (act == "treatments") { if (tot > prev_total) fail("treatment created hosts at " + where); }
            else if (tot != prev_total) fail("hosts not conserved by " + where + " (" + std::to_string(prev_total) + " -> " + std::to_string(tot) + ")");
            prev_total = tot; prev_died = dd; last = where;
        };
        int cur_step = 0;
        verif::trace_hook() = [&](const char* action, int step, int) { check(action, step); };
        try {
            for (unsigned step = 0; step < nsteps && g_fail.empty(); step++) {
                cur_step = step;
                model.run_step(step, mhp, pp, config.use_movements ? L.th : L.tp, treatments, temperatures, survival_rates, spread_rate, quarantine, qareas, movements, Network<int>::null_network());
            }
        } catch (const std::exception& ex) { fail(std::string("exception at step ") + std::to_string(cur_step) + " after " + last + ": " + ex.what()); }
        verif::trace_hook() = nullptr;
        if (!g_fail.empty()) { nfail++; std::cout << "case " << cs << " (" << config.model_type << " L=" << L.L << " M=" << L.M << " " << R << "x" << C << " kernel=" << config.natural_kernel_type << " soils=" << soils << " ratio_treat=" << ratio_treatment << " overpop=" << config.use_overpopulation_movements << " mov=" << config.use_movements << " mort=" << config.use_mortality << " lethal=" << config.use_lethal_temperature << " surv=" << config.use_survival_rate << " treat=" << config.use_treatments << " gs=" << config.generate_stochasticity << " es=" << config.establishment_stochasticity << "): " << g_fail << "\n"; }
    }
    std::cout << "cases " << ncases << " failures " << nfail << " actions " << nactions << "\n";
    for (auto& kv : action_counts) std::cout << "  " << kv.first << ": " << kv.second << "\n";
    return nfail ? 1 : 0;
}
