#include <pops/raster.hpp>
#include <iostream>
#include <map>
#include <vector>
#include <cstdint>
using namespace pops;
struct Rng { uint64_t s; uint64_t next() { s ^= s << 13; s ^= s >> 7; s ^= s << 17; return s; } int in(int lo, int hi) { return lo + (int)(next() % (uint64_t)(hi - lo + 1)); } bool coin(int pct = 50) { return in(0, 99) < pct; } };
std::map<std::string, int> fails; std::map<std::string, std::string> first; void F(const std::string& k, const std::string& w) { if (!fails[k]++) first[k] = w; }
template<typename T> Raster<T> mk(Rng& r, int R, int C, bool nz) { Raster<T> a(R, C); for (int i = 0; i < R; i++) for (int j = 0; j < C; j++) { int v = r.in(-9, 9); if (nz && v == 0) v = 3; a(i, j) = (T)v + (std::is_floating_point<T>::value ? r.in(0, 3) * 0.25 : 0); } return a; }
template<typename T, typename S> void scalar_ops(Rng& r, int R, int C, S sc, const std::string& tag) {
    auto a = mk<T>(r, R, C, true); auto a0 = a;
    auto p = a + sc, m = a - sc, t = a * sc, d = a / sc, p2 = sc + a, m2 = sc - a, t2 = sc * a, d2 = sc / a;
    if (!(a == a0)) F("operand_changed_scalar", tag);
    auto ca = a; ca += sc; auto cm = a; cm -= sc; auto ct = a; ct *= sc; auto cd = a; cd /= sc;
    for (int i = 0; i < R; i++) for (int j = 0; j < C; j++) { T x = a(i, j);
        T ep = static_cast<T>(x + sc), em = static_cast<T>(x - sc), et = static_cast<T>(x * sc), ed = static_cast<T>(x / sc);
        if (p(i, j) != ep || p2(i, j) != ep) F("plus_scalar", tag); if (m(i, j) != em) F("minus_scalar", tag); if (m2(i, j) != static_cast<T>(sc - x)) F("scalar_minus", tag);
        if (t(i, j) != et || t2(i, j) != et) F("times_scalar", tag); if (d(i, j) != ed) F("div_scalar", tag); if (d2(i, j) != static_cast<T>(sc / x)) F("scalar_div", tag);
        T y = x; y += sc; if (ca(i, j) != y) F("plus_assign_scalar", tag + " cell " + std::to_string((double)x) + " sc " + std::to_string((double)sc) + " got " + std::to_string((double)ca(i, j)));
        y = x; y -= sc; if (cm(i, j) != y) F("minus_assign_scalar", tag); y = x; y *= sc; if (ct(i, j) != y) F("times_assign_scalar", tag); y = x; y /= sc; if (cd(i, j) != y) F("div_assign_scalar", tag); }
}
template<typename A, typename B> void raster_ops(Rng& r, int R, int C, const std::string& tag) {
    using Rt = typename std::common_type<A, B>::type;
    auto a = mk<A>(r, R, C, true); auto b = mk<B>(r, R, C, true); auto a0 = a; auto b0 = b;
    Raster<Rt> p = a + b, m = a - b, t = a * b, d = a / b;
    if (!(a == a0) || !(b == b0)) F("operand_changed_raster", tag);
    for (int i = 0; i < R; i++) for (int j = 0; j < C; j++) { if (p(i, j) != (Rt)(a(i, j) + b(i, j))) F("plus", tag); if (m(i, j) != (Rt)(a(i, j) - b(i, j))) F("minus", tag); if (t(i, j) != (Rt)(a(i, j) * b(i, j))) F("times", tag); if (d(i, j) != (Rt)(a(i, j) / b(i, j))) F("div", tag); }
    bool threw = false; try { Raster<B> c = mk<B>(r, R + 1, C, true); auto z = a + c; (void)z; } catch (const std::invalid_argument&) { threw = true; } if (!threw) F("shape_mismatch_not_rejected", tag);
}
int main(int argc, char** argv) {
    uint64_t seed = argc > 1 ? std::stoull(argv[1]) : 1; int n = argc > 2 ? std::stoi(argv[2]) : 3000; Rng rng{seed * 0x9E3779B97F4A7C15ULL + 3};
    for (int c = 0; c < n; c++) {
        int shape = rng.in(0, 4); int R = shape == 0 ? 1 : shape == 1 ? 1 : shape == 2 ? rng.in(2, 6) : rng.in(2, 6); int C = shape == 0 ? 1 : shape == 1 ? rng.in(2, 6) : shape == 2 ? 1 : rng.in(1, 6);
        std::string tag = std::to_string(R) + "x" + std::to_string(C);
        int isc = rng.in(1, 5) * (rng.coin() ? 1 : -1); double dsc = rng.in(1, 20) * 0.25 * (rng.coin() ? 1 : -1);
        scalar_ops<int, int>(rng, R, C, isc, tag + " int,int"); scalar_ops<double, double>(rng, R, C, dsc, tag + " double,double"); scalar_ops<double, int>(rng, R, C, isc, tag + " double,int");
        if (std::abs(dsc) >= 1) scalar_ops<int, double>(rng, R, C, dsc, tag + " int,double");
        raster_ops<int, int>(rng, R, C, tag + " int int"); raster_ops<double, double>(rng, R, C, tag + " dbl dbl"); raster_ops<int, double>(rng, R, C, tag + " int dbl"); raster_ops<double, int>(rng, R, C, tag + " dbl int");
        // equality
        auto a = mk<int>(rng, R, C, false); auto b = a; if (!(a == b) || (a != b)) F("eq_copy", tag); int i = rng.in(0, R - 1), j = rng.in(0, C - 1); b(i, j) += 1; if ((a == b) || !(a != b)) F("eq_differs", tag + " at " + std::to_string(i) + "," + std::to_string(j));
        Raster<int> t(C, R, 0), z(R, C, 0); if (R != C && (t == z)) F("eq_shape", tag);
        // copy independence / move / wrap
        { auto c1 = a; c1(i, j) = 77; if (a(i, j) == 77 && b(i, j) != 78) F("copy_dep", tag); Raster<int> mv(std::move(c1)); if (mv(i, j) != 77) F("move", tag);
          std::vector<int> ext(R * C, 5); { Raster<int> w(ext.data(), R, C); w(i, j) = 9; w += 1; } if (ext[i * C + j] != 10 || ext[(i * C + j + 1) % (R * C)] != (R * C == 1 ? 10 : 6)) F("wrap", tag); }
        // pow/sqrt
        { Raster<double> q(R, C, 4.0); auto s2 = sqrt(q); auto p2 = pow(q, 2); if (q(0, 0) != 4.0 || s2(R - 1, C - 1) != 2.0 || p2(R - 1, C - 1) != 16.0) F("pow_sqrt", tag); }
    }
    std::cout << "raster cases " << n << "\n"; for (auto& kv : fails) std::cout << "  FAIL " << kv.first << " x" << kv.second << " first: " << first[kv.first] << "\n"; return fails.empty() ? 0 : 1;
}
