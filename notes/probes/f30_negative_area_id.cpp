// Probe for finding F30 (C18): an infected cell whose quarantine-area id is negative.
// quarantine.hpp: "0 in the raster means no quarantine area"; quarantine_boundary() registers only
// ids > 0; action() treats only id == 0 as an escape and then evaluates boundary_id_idx_map[area],
// which INSERTS an unknown id with index 0.
//   g++ -std=c++17 -I/repo/include notes/probes/f30_negative_area_id.cpp -o /tmp/f30 && /tmp/f30
#include <cmath>
#include <pops/quarantine.hpp>
#include <pops/raster.hpp>
#include <iostream>
#include <stdexcept>
using namespace pops;
struct H { const Raster<int>* inf; const std::vector<std::vector<int>>* cells;
  int infected_at(int r, int c) const { return (*inf)(r, c); }
  const std::vector<std::vector<int>>& suitable_cells() const { return *cells; } };

static void run(const char* label, const Raster<int>& areas, const Raster<int>& infected, const std::string& dirs) {
    std::vector<std::vector<int>> cells;
    for (int r = 0; r < areas.rows(); r++) for (int c = 0; c < areas.cols(); c++) cells.push_back({r, c});
    H h{&infected, &cells};
    std::cout << label << ": ";
    try {
        QuarantineEscapeAction<Raster<int>> q(areas, 1.0, 1.0, 1, dirs);
        q.action(h, areas, 0);
        std::cout << "escaped " << q.escaped(0) << " distance " << q.distance(0) << " direction "
                  << quarantine_enum_to_string(q.direction(0)) << " (" << (int)q.direction(0) << ")\n";
    }
    catch (const std::out_of_range& e) { std::cout << "std::out_of_range: " << e.what() << "\n"; }
    catch (const std::exception& e) { std::cout << "exception: " << e.what() << "\n"; }
}

int main() {
    {   // (a) 1 x 5, areas [-1,-1,1,1,1], infected column 0 (id -1), directions E,W, ew = 1
        Raster<int> areas(1, 5, 1), inf(1, 5, 0);
        areas(0, 0) = -1; areas(0, 1) = -1;
        inf(0, 0) = 1;
        run("(a) areas [-1,-1,1,1,1] infected col 0 dirs E,W", areas, inf, "E,W");
        // the same cell with id 0 for comparison: the documented "no quarantine area"
        Raster<int> areas0(areas); areas0(0, 0) = 0; areas0(0, 1) = 0;
        run("(a0) areas [0,0,1,1,1] infected col 0 dirs E,W", areas0, inf, "E,W");
        // a nodata value
        Raster<int> areas9(areas); areas9(0, 0) = -9999; areas9(0, 1) = -9999;
        run("(a9) areas [-9999,-9999,1,1,1] infected col 0 dirs E,W", areas9, inf, "E,W");
    }
    {   // (b) areas all -1, one infected cell
        Raster<int> areas(2, 3, -1), inf(2, 3, 0);
        inf(1, 1) = 1;
        run("(b) areas 2x3 all -1, infected (1,1), all directions", areas, inf, "");
    }
    {   // (c) negative ids only at NON-infected cells: the positive area must be judged as usual
        Raster<int> areas(1, 5, 1), inf(1, 5, 0);
        areas(0, 0) = -1; areas(0, 1) = -1;
        inf(0, 3) = 1;   // box of id 1 is columns 2..4: W distance 1, E distance 1 -> first in order N,S,E,W among E,W is E
        run("(c) areas [-1,-1,1,1,1] infected col 3 dirs E,W", areas, inf, "E,W");
    }
    return 0;
}
