// F32 (C06): dispersal_stochasticity = false with the anthropogenic kernel switched on - both kernels
// are then deterministic (a radial type is served by DeterministicDispersalKernel, natural_kernel.hpp:57,
// anthropogenic_kernel.hpp:70), but NaturalAnthropogenicDispersalKernel::operator()
// (natural_anthropogenic_kernel.hpp:74-82) still tosses the natural-or-anthropogenic Bernoulli coin for
// every disperser from the anthropogenic-dispersal stream. With 0 < percent_natural_dispersal < 1 the
// result depends on the anthropogenic_dispersal seed although dispersal was "made deterministic".
//
// Two runs of Model::run_step (multi-host entry point, one host) over six monthly steps. Named seeds
// (Config::read_seeds with ten values); the runs differ ONLY in the seed named "anthropogenic_dispersal".
// Everything that has a flag is deterministic: generate_stochasticity, establishment_stochasticity,
// movement_stochasticity, dispersal_stochasticity = false; natural kernel: Cauchy through the
// deterministic kernel; anthropogenic kernel: deterministic neighbour, direction W; no weather, lethal
// temperature, survival rate, overpopulation, movements, treatments, mortality, soils.
// Controls: (a) runs differing only in the "weather" seed, (b) use_anthropogenic_kernel = false, runs
// differing only in the anthropogenic seed, (c) percent_natural_dispersal = 1 (the coin always says
// natural), runs differing only in the anthropogenic seed, (d) the natural-dispersal seed (the
// deterministic Cauchy kernel does not draw).
//
//   g++ -std=c++17 -I/repo/include f32_kernel_choice_drawn_with_deterministic_dispersal.cpp -o f32 && ./f32
#include <pops/model.hpp>
#include <pops/pest_host_table.hpp>
#include <iostream>
#include <memory>
#include <sstream>
using namespace pops;
using IR = Raster<int>;
using DR = Raster<double>;

static std::string row_of(const IR& x) {
    std::ostringstream o;
    for (int a = 0; a < x.rows(); a++) for (int b = 0; b < x.cols(); b++) o << (a || b ? " " : "") << x(a, b);
    return o.str();
}

static std::string run(bool use_anthro, double percent_natural, const std::vector<unsigned>& seeds, int nsteps) {
    const int rows = 1, cols = 7;
    Config config;
    config.rows = rows; config.cols = cols; config.ew_res = 30; config.ns_res = 30;
    config.model_type = "SI"; config.latency_period_steps = 0;
    config.generate_stochasticity = false;
    config.establishment_stochasticity = false;
    config.movement_stochasticity = false;
    config.dispersal_stochasticity = false;        // dispersal "made deterministic"
    config.establishment_probability = 0.9;
    config.reproductive_rate = 1.0;
    config.natural_kernel_type = "cauchy"; config.natural_direction = "none"; config.natural_kappa = 0;
    config.natural_scale = 20; config.shape = 1.0;
    config.anthro_kernel_type = "deterministic neighbor"; config.anthro_direction = "W"; config.anthro_kappa = 0;
    config.anthro_scale = 20;
    config.use_anthropogenic_kernel = use_anthro;
    config.percent_natural_dispersal = percent_natural;
    config.dispersal_percentage = 0.9;
    config.use_lethal_temperature = false; config.use_survival_rate = false; config.use_overpopulation_movements = false;
    config.use_mortality = false; config.use_treatments = false; config.use_movements = false;
    config.use_spreadrates = false; config.use_quarantine = false;
    config.set_date_start(2020, 1, 1); config.set_date_end(2020, 12, 31);
    config.set_step_unit(StepUnit::Month); config.set_step_num_units(1);
    config.set_season_start_end_month(1, 12);
    config.output_frequency = "every_step"; config.output_frequency_n = 1;
    config.create_schedules();
    config.create_pest_host_table_from_parameters(1);
    config.read_seeds(seeds);

    using TModel = Model<IR, DR, int>;
    using Pool = TModel::StandardSingleHostPool;
    using Multi = TModel::StandardMultiHostPool;
    using Pests = TModel::StandardPestPool;
    TModel model(config);

    IR s(rows, cols, 20), i(rows, cols, 0), r(rows, cols, 0), te(rows, cols, 0), th(rows, cols, 0), died(rows, cols, 0);
    std::vector<IR> e, m(1, IR(rows, cols, 0));
    i(0, 3) = 6; m[0](0, 3) = 6;  // infection in the middle cell
    std::vector<std::vector<int>> suitable;
    for (int b = 0; b < cols; b++) { th(0, b) = s(0, b) + i(0, b); suitable.push_back({0, b}); }
    IR npop(th);

    Pool pool(ModelType::SusceptibleInfected, s, e, 0u, i, te, r, m, died, th, model.environment(), config.generate_stochasticity,
              config.reproductive_rate, config.establishment_stochasticity, config.establishment_probability, rows, cols, suitable);
    std::vector<Pool*> ptrs = {&pool};
    Multi multi(ptrs, config);
    PestHostTable<Pool> table(config, model.environment());
    multi.set_pest_host_table(table);
    IR dispersers(rows, cols, 0), established(rows, cols, 0);
    std::vector<std::tuple<int, int>> outside;
    Pests pests{dispersers, established, outside};
    SpreadRateAction<Multi, int> spread_rate(multi, rows, cols, config.ew_res, config.ns_res, 0);
    Treatments<Pool, DR> treatments(config.scheduler());
    IR quarantine_areas(rows, cols, 1);
    QuarantineEscapeAction<IR> quarantine(quarantine_areas, config.ew_res, config.ns_res, 0, "");
    std::vector<DR> temperatures, survival_rates;
    std::vector<std::vector<int>> movements;
    Network<int> network(Network<int>::null_network());

    std::ostringstream o;
    for (int step = 0; step < nsteps; step++) {
        model.run_step(step, multi, pests, npop, treatments, temperatures, survival_rates, spread_rate, quarantine, quarantine_areas, movements, network);
        o << "  step " << step << ":  infected [" << row_of(i) << "] outside " << outside.size() << "\n";
    }
    return o.str();
}

int main() {
    //                          gen  nat  ant  est  wea  leth mov  over surv soil
    std::vector<unsigned> a = {11, 12, 13, 14, 15, 16, 17, 18, 19, 20};
    std::vector<unsigned> b = a; b[2] = 1000003;  // only "anthropogenic_dispersal" differs
    std::vector<unsigned> w = a; w[4] = 1000003;  // only "weather" differs (control)
    std::vector<unsigned> n = a; n[1] = 1000003;  // only "natural_dispersal" differs (control)
    const int steps = 6;
    std::string ra = run(true, 0.5, a, steps), rb = run(true, 0.5, b, steps);
    std::cout << "anthropogenic kernel on, dispersal_stochasticity = false, percent_natural_dispersal = 0.5, seeds a (anthropogenic_dispersal = 13):\n" << ra;
    std::cout << "the same, anthropogenic_dispersal seed changed to 1000003:\n" << rb;
    std::cout << "F32 dispersal_stochasticity = false, only the anthropogenic_dispersal seed differs: outputs " << (ra == rb ? "EQUAL" : "DIFFER") << "\n";
    std::cout << "control, only the weather seed differs:                                            outputs " << (ra == run(true, 0.5, w, steps) ? "EQUAL" : "DIFFER") << "\n";
    std::cout << "control, only the natural_dispersal seed differs:                                  outputs " << (ra == run(true, 0.5, n, steps) ? "EQUAL" : "DIFFER") << "\n";
    std::cout << "control, use_anthropogenic_kernel = false, only the anthropogenic seed differs:    outputs " << (run(false, 0.5, a, steps) == run(false, 0.5, b, steps) ? "EQUAL" : "DIFFER") << "\n";
    std::cout << "control, percent_natural_dispersal = 1, only the anthropogenic seed differs:       outputs " << (run(true, 1.0, a, steps) == run(true, 1.0, b, steps) ? "EQUAL" : "DIFFER") << "\n";
    return ra == rb ? 1 : 0;  // exit status 0: the finding reproduces
}
